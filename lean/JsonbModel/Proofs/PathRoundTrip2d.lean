/-
The Rust `Display` output of a JSONPath (`printJsonPath`) is one of the renderings of
`PathRoundTrip2a–c`, for every AST satisfying the decidable predicate `goodJsonPath`.
Hence print → parse is the identity on these ASTs (`parse_print`).
-/
import JsonbModel.Proofs.PathRoundTrip2c

namespace Jsonb
namespace PathRT2
open Nom PathParser PathPrint PathRT

/-! ### the covered ASTs -/

/-- split a float text into sign, integer digits, fraction digits, exponent marker, exponent
sign and the rest (taken as exponent digits; `FloatText.good` checks that they are digits) -/
def splitFloat (t : Bytes) : FloatText :=
  let nt : Bool × Bytes := match t with
    | 45 :: r => (true, r)
    | _ => (false, t)
  let it := spanDigits nt.2
  let ft : Bytes × Bytes := match it.2 with
    | 46 :: r => spanDigits r
    | _ => ([], it.2)
  match ft.2 with
  | e :: r =>
    if e == 101 || e == 69 then
      let sr : Option Bool × Bytes := match r with
        | 43 :: r' => (some false, r')
        | 45 :: r' => (some true, r')
        | _ => (none, r)
      ⟨nt.1, it.1, ft.1, e == 69, sr.1, sr.2⟩
    else ⟨nt.1, it.1, ft.1, false, none, e :: r⟩
  | [] => ⟨nt.1, it.1, ft.1, false, none, []⟩

/-- The float formatter's output for the bit pattern `b` is read back as `b`: it is
* a decimal literal with a fraction and/or an exponent part (`-1.5`, `1e21`, `2.5E-7`, `.5`)
  whose correctly rounded value is `b` (so not an integer literal), or
* `NaN` (any letter case) and `b` is the canonical NaN `0x7FF8000000000000`, or
* `inf` (any letter case) and `b` is `+∞`.
(`-inf`, which Rust prints for `-∞`, is not accepted by the parser.) -/
def goodFloat (f : Nat → Bytes) (b : Nat) : Bool :=
  (decide (KwOf kwNan (f b)) && b == F64.canonNaN) ||
  (decide (KwOf kwInf (f b)) && b == F64.posInf) ||
  ((splitFloat (f b)).good && (splitFloat (f b)).render == f b && (splitFloat (f b)).lit.bits == b)

theorem goodFloat_rval {f : Nat → Bytes} {b : Nat} (h : goodFloat f b = true) :
    RVal (.num (.float b)) (f b) := by
  have : ((KwOf kwNan (f b) ∧ b = F64.canonNaN) ∨ (KwOf kwInf (f b) ∧ b = F64.posInf)) ∨
      (((splitFloat (f b)).good = true ∧ (splitFloat (f b)).render = f b) ∧
        (splitFloat (f b)).lit.bits = b) := by simpa [goodFloat] using h
  rcases this with (⟨h1, rfl⟩ | ⟨h1, rfl⟩) | ⟨⟨h1, h2⟩, h3⟩
  · exact .nan _ h1
  · exact .inf _ h1
  · have := RVal.float _ h1
    rw [h2, h3] at this
    exact this

/-- literals that print to something the parser reads back as the same literal:
`UInt64` always; `Int64` only if negative (`Int64(5)` prints as `5`, which is read as
`UInt64(5)`); floats as described at `goodFloat`; strings without `"` and `\` (valid UTF-8). -/
def goodValue (f : Nat → Bytes) : PathValue → Bool
  | .null => true
  | .bool _ => true
  | .num (.uint n) => decide (n ≤ 18446744073709551615)
  | .num (.int i) => decide (-9223372036854775808 ≤ i ∧ i < 0)
  | .num (.float b) => goodFloat f b
  | .str s => goodQuoted s

/-- plain steps: wildcards, `.name` / `:name` (`goodField`: non-empty, no delimiter or
backslash, valid UTF-8), `["name"]` (`goodQuoted`: no `"` or `\`, valid UTF-8), non-empty index
lists with `i32` indices -/
def goodPlainStep : Path → Bool
  | .dotWildcard => true
  | .bracketWildcard => true
  | .dotField s => goodField s
  | .colonField s => goodField s
  | .objectField s => goodQuoted s
  | .arrayIndices is => !is.isEmpty && is.all goodArrayIndex
  | _ => false

/-- comparison operands: `$`/`@` followed by plain steps (`@` not in a top-level predicate),
or a good literal -/
def goodOperand (f : Nat → Bytes) (rp : Bool) : Expr → Bool
  | .paths (.root :: ps) => ps.all goodPlainStep
  | .paths (.current :: ps) => !rp && ps.all goodPlainStep
  | .value v => goodValue f v
  | _ => false

mutual
/-- filter expressions: `&&`/`||` of good expressions (any nesting), comparisons of good
operands, `exists($|@ steps…)` -/
def goodExpr (f : Nat → Bytes) (rp : Bool) : Expr → Bool
  | .binaryOp o l r =>
    match o with
    | .and => goodExpr f rp l && goodExpr f rp r
    | .or => goodExpr f rp l && goodExpr f rp r
    | _ => goodOperand f rp l && goodOperand f rp r
  | .existsFn ps => goodExists f ps
  | _ => false
/-- the argument of `exists`: `$` or `@`, then good steps -/
def goodExists (f : Nat → Bytes) : List Path → Bool
  | .root :: ps => goodSteps f ps
  | .current :: ps => goodSteps f ps
  | _ => false
/-- plain steps and filter steps `?(good expression)` -/
def goodSteps (f : Nat → Bytes) : List Path → Bool
  | [] => true
  | p :: ps => goodStepF f p && goodSteps f ps
def goodStepF (f : Nat → Bytes) : Path → Bool
  | .filterExpr e => goodExpr f false e
  | .dotWildcard => true
  | .bracketWildcard => true
  | .dotField s => goodField s
  | .colonField s => goodField s
  | .objectField s => goodQuoted s
  | .arrayIndices is => !is.isEmpty && is.all goodArrayIndex
  | _ => false
end

/-- The JSONPaths covered by the print → parse theorem: `$` followed by good steps (plain or
filter), or a single top-level predicate expression. -/
def goodJsonPath (f : Nat → Bytes) : JsonPath → Bool
  | .root :: ps => goodSteps f ps
  | [.predicate e] => goodExpr f true e
  | _ => false

/-! ### printed tokens are renderings -/

theorem index_print_rend (x : Index) (hx : goodIndex x = true) : RIndex x (printIndex x) := by
  cases x with
  | index n => exact .index n (by simpa [goodIndex] using hx)
  | last n =>
    have hn : inI32 n := by simpa [goodIndex] using hx
    by_cases hpos : n > 0
    · have e : printIndex (.last n) = kwLast ++ ([] ++ 43 :: ([] ++ intBytes n)) := by
        simp [printIndex, hpos, kwLast]
      rw [e]
      exact .lastPlus kwLast [] [] n (KwOf.refl _) Ws.nil Ws.nil hn
    · by_cases hneg : n < 0
      · have e : printIndex (.last n) = kwLast ++ ([] ++ 45 :: ([] ++ intBytes (n.natAbs : Int))) := by
          simp [printIndex, hpos, hneg, intBytes_natAbs_neg n hneg, kwLast]
        have hsat : lastMinus (n.natAbs : Int) = .last n := by
          have := hn.1
          unfold lastMinus saturatingNeg64 clampI32
          rw [if_neg (by omega), if_neg (by omega), if_neg (by omega)]
          congr 1; omega
        rw [e, ← hsat]
        exact .lastMinus kwLast [] [] _ (KwOf.refl _) Ws.nil Ws.nil
          ⟨by have := hn.1; omega, by have := hn.1; omega⟩
      · have h0 : n = 0 := by omega
        subst h0
        exact .last0 kwLast (KwOf.refl _)

theorem arrayIndex_print_rend (a : ArrayIndex) (ha : goodArrayIndex a = true) :
    RArrayIndex a (printArrayIndex a) := by
  cases a with
  | index i => exact .index i _ (index_print_rend i (by simpa [goodArrayIndex] using ha))
  | slice s e =>
    have hg : goodIndex s = true ∧ goodIndex e = true := by simpa [goodArrayIndex] using ha
    have e1 : printArrayIndex (.slice s e) = printIndex s ++ ([32] ++ (kwTo ++ ([32] ++ printIndex e))) := by
      simp [printArrayIndex, kwTo]
    rw [e1]
    exact .slice s e _ _ [32] kwTo [32] (index_print_rend s hg.1) (index_print_rend e hg.2) Ws.one
      (KwOf.refl _) Ws.one

theorem aiList_print_rend (as : List ArrayIndex) :
    ∀ (a : ArrayIndex) (w : Bytes), Ws w → (a :: as).all goodArrayIndex = true →
      RAiList (a :: as) (w ++ (printArrayIndex a ++ commaSpList as)) := by
  induction as with
  | nil =>
    intro a w hw h
    have ha : goodArrayIndex a = true := by simpa using h
    have := RAiList.one a w _ [] hw (arrayIndex_print_rend a ha) Ws.nil
    simpa [commaSpList] using this
  | cons b bs ih =>
    intro a w hw h
    have ha : goodArrayIndex a = true ∧ (b :: bs).all goodArrayIndex = true := by simpa using h
    have hrest := ih b [32] Ws.one ha.2
    have := RAiList.cons a (b :: bs) w _ [] _ hw (arrayIndex_print_rend a ha.1) Ws.nil hrest
    simpa [commaSpList] using this

theorem plainStep_print_rend (f : Nat → Bytes) (p : Path) (hp : goodPlainStep p = true) :
    RStep p (printPath f p) := by
  cases p with
  | dotWildcard => exact .dotWildcard
  | bracketWildcard => exact .bracketWildcard [] [] Ws.nil Ws.nil
  | dotField s => exact .dotField s s (.raw s (by simpa [goodPlainStep] using hp))
  | colonField s => exact .colonField s s (.raw s (by simpa [goodPlainStep] using hp))
  | objectField s =>
    have e : printPath f (.objectField s) = 91 :: ([] ++ (34 :: (s ++ [34]) ++ ([] ++ [93]))) := by
      simp [printPath]
    rw [e]
    exact .objectField s _ [] [] (RQuoted.of_good s (by simpa [goodPlainStep] using hp)) Ws.nil Ws.nil
  | arrayIndices is =>
    cases is with
    | nil => simp [goodPlainStep] at hp
    | cons a as =>
      have hg : (a :: as).all goodArrayIndex = true := by simpa [goodPlainStep] using hp
      have e : printPath f (.arrayIndices (a :: as))
          = 91 :: (([] ++ (printArrayIndex a ++ commaSpList as)) ++ [93]) := by
        simp [printPath, printArrayIndexList_cons]
      rw [e]
      exact .arrayIndices _ _ (aiList_print_rend as a [] Ws.nil hg)
  | root => simp [goodPlainStep] at hp
  | current => simp [goodPlainStep] at hp
  | arithmeticExpr e => simp [goodPlainStep] at hp
  | filterExpr e => simp [goodPlainStep] at hp
  | predicate e => simp [goodPlainStep] at hp

theorem plainSteps_print_rend (f : Nat → Bytes) (ps : List Path) (h : ps.all goodPlainStep = true) :
    RPlainSteps ps (printPaths f ps) := by
  induction ps with
  | nil => simp [printPaths]; exact .nil
  | cons p ps ih =>
    have hp : goodPlainStep p = true ∧ ps.all goodPlainStep = true := by simpa using h
    have := RPlainSteps.cons p ps [] _ [] _ Ws.nil (plainStep_print_rend f p hp.1) Ws.nil (ih hp.2)
    simpa [printPaths] using this

theorem value_print_rend (f : Nat → Bytes) (v : PathValue) (hv : goodValue f v = true) :
    RVal v (printPathValue f v) := by
  cases v with
  | null => exact .null
  | bool b => cases b; exact .litFalse; exact .litTrue
  | num n =>
    cases n with
    | uint n => exact .uint n (by simpa [goodValue] using hv)
    | int i =>
      have : -9223372036854775808 ≤ i ∧ i < 0 := by simpa [goodValue] using hv
      exact .int i ⟨this.1, by omega⟩ this.2
    | float b =>
      exact goodFloat_rval (by simpa [goodValue] using hv)
  | str s =>
    have e : printPathValue f (.str s) = 34 :: (s ++ [34]) := by simp [printPathValue]
    rw [e]
    exact .str s _ (RQuoted.of_good s (by simpa [goodValue] using hv))

theorem operand_print_rend (f : Nat → Bytes) (rp : Bool) (x : Expr) (hx : goodOperand f rp x = true)
    (w : Bytes) (hw : Ws w) : ROperand rp x (printExpr f x ++ w) ∧ needsParens x = false := by
  cases x with
  | paths ps =>
    cases ps with
    | nil => simp [goodOperand] at hx
    | cons hd ps =>
      cases hd with
      | root =>
        have h : ps.all goodPlainStep = true := by simpa [goodOperand] using hx
        have := ROperand.paths (rp := rp) .root ps 36 _ w (.root rp) (plainSteps_print_rend f ps h) hw
        refine ⟨?_, rfl⟩
        simpa [printExpr, printPaths, printPath] using this
      | current =>
        have h : rp = false ∧ ps.all goodPlainStep = true := by simpa [goodOperand] using hx
        obtain ⟨rfl, h⟩ := h
        have := ROperand.paths (rp := false) .current ps 64 _ w .current (plainSteps_print_rend f ps h) hw
        refine ⟨?_, rfl⟩
        simpa [printExpr, printPaths, printPath] using this
      | _ => simp [goodOperand] at hx
  | value v =>
    have h : goodValue f v = true := by simpa [goodOperand] using hx
    refine ⟨?_, rfl⟩
    have := ROperand.value (rp := rp) v _ w (value_print_rend f v h) hw
    simpa [printExpr] using this
  | _ => simp [goodOperand] at hx

theorem op_print_rend (o : BinOp) (h1 : o ≠ .and) (h2 : o ≠ .or) : ROp o (printBinOp o) := by
  cases o with
  | and => exact absurd rfl h1
  | or => exact absurd rfl h2
  | eq => exact .eq
  | ne => exact .ne
  | lt => exact .lt
  | le => exact .le
  | gt => exact .gt
  | ge => exact .ge

/-! ### printed expressions are renderings -/

/-- the text `Display` writes for an operand of `&&` / `||` -/
def atomText (f : Nat → Bytes) (e : Expr) : Bytes :=
  if needsParens e then [40] ++ printExpr f e ++ [41] else printExpr f e

theorem printExpr_binaryOp (f : Nat → Bytes) (o : BinOp) (l r : Expr) :
    printExpr f (.binaryOp o l r) = atomText f l ++ [32] ++ printBinOp o ++ [32] ++ atomText f r := by
  simp [printExpr, atomText]

theorem cmp_print_rend (f : Nat → Bytes) (rp : Bool) (o : BinOp) (l r : Expr) (h1 : o ≠ .and)
    (h2 : o ≠ .or) (hl : goodOperand f rp l = true) (hr : goodOperand f rp r = true) :
    R .atom rp (.binaryOp o l r) (printExpr f (.binaryOp o l r)) := by
  obtain ⟨rl, nl⟩ := operand_print_rend f rp l hl [32] Ws.one
  obtain ⟨rr, nr⟩ := operand_print_rend f rp r hr [] Ws.nil
  have := R.cmp rp o l r [] _ _ [32] _ Ws.nil rl (op_print_rend o h1 h2) Ws.one rr
  rw [printExpr_binaryOp]
  simp only [atomText, nl, nr, Bool.false_eq_true, if_false]
  simpa using this

theorem orL_of_atom {rp : Bool} {e : Expr} {s : Bytes} (h : R .atom rp e s) : R .orL rp e s := by
  have := R.orL rp e e (s ++ []) [] (R.andL rp e e s [] h (.andTailNil rp e)) (.orTailNil rp e)
  simpa using this

theorem paren_of_orL {rp : Bool} {e : Expr} {s : Bytes} (h : R .orL rp e s) :
    R .atom rp e ([40] ++ s ++ [41]) := by
  have := R.paren rp e [] s [] Ws.nil h Ws.nil
  simpa using this

mutual
/-- a good expression, as printed, is a rendering (both as operand of `&&`/`||` and as a whole) -/
theorem expr_print_rend (f : Nat → Bytes) (rp : Bool) :
    (e : Expr) → goodExpr f rp e = true →
      R .atom rp e (atomText f e) ∧ R .orL rp e (printExpr f e)
  | .binaryOp o l r, h => by
    cases o with
    | and =>
      have hg : goodExpr f rp l = true ∧ goodExpr f rp r = true := by simpa [goodExpr] using h
      have il := (expr_print_rend f rp l hg.1).1
      have ir := (expr_print_rend f rp r hg.2).1
      have hand := R.andL rp l _ _ _ il
        (.andTailCons rp l r _ [32] [32] _ [] Ws.one Ws.one ir (.andTailNil rp _))
      have hor := R.orL rp _ _ _ [] hand (.orTailNil rp _)
      have e1 : atomText f l ++ ([32] ++ 38 :: 38 :: ([32] ++ (atomText f r ++ []))) ++ []
          = printExpr f (.binaryOp .and l r) := by
        rw [printExpr_binaryOp]; simp [printBinOp]
      rw [e1] at hor
      refine ⟨?_, hor⟩
      have : atomText f (.binaryOp .and l r) = [40] ++ printExpr f (.binaryOp .and l r) ++ [41] := by
        simp [atomText, needsParens]
      rw [this]
      exact paren_of_orL hor
    | or =>
      have hg : goodExpr f rp l = true ∧ goodExpr f rp r = true := by simpa [goodExpr] using h
      have il := (expr_print_rend f rp l hg.1).1
      have ir := (expr_print_rend f rp r hg.2).1
      have hl := R.andL rp l _ _ [] il (.andTailNil rp _)
      have hr := R.andL rp r _ _ [] ir (.andTailNil rp _)
      have hor := R.orL rp l _ _ _ hl
        (.orTailCons rp l r _ [32] [32] _ [] Ws.one Ws.one hr (.orTailNil rp _))
      have e1 : atomText f l ++ [] ++ ([32] ++ 124 :: 124 :: ([32] ++ (atomText f r ++ [] ++ [])))
          = printExpr f (.binaryOp .or l r) := by
        rw [printExpr_binaryOp]; simp [printBinOp]
      rw [e1] at hor
      refine ⟨?_, hor⟩
      have : atomText f (.binaryOp .or l r) = [40] ++ printExpr f (.binaryOp .or l r) ++ [41] := by
        simp [atomText, needsParens]
      rw [this]
      exact paren_of_orL hor
    | eq =>
      have hg : goodOperand f rp l = true ∧ goodOperand f rp r = true := by simpa [goodExpr] using h
      have := cmp_print_rend f rp .eq l r (by decide) (by decide) hg.1 hg.2
      exact ⟨by simpa [atomText, needsParens] using this, orL_of_atom this⟩
    | ne =>
      have hg : goodOperand f rp l = true ∧ goodOperand f rp r = true := by simpa [goodExpr] using h
      have := cmp_print_rend f rp .ne l r (by decide) (by decide) hg.1 hg.2
      exact ⟨by simpa [atomText, needsParens] using this, orL_of_atom this⟩
    | lt =>
      have hg : goodOperand f rp l = true ∧ goodOperand f rp r = true := by simpa [goodExpr] using h
      have := cmp_print_rend f rp .lt l r (by decide) (by decide) hg.1 hg.2
      exact ⟨by simpa [atomText, needsParens] using this, orL_of_atom this⟩
    | le =>
      have hg : goodOperand f rp l = true ∧ goodOperand f rp r = true := by simpa [goodExpr] using h
      have := cmp_print_rend f rp .le l r (by decide) (by decide) hg.1 hg.2
      exact ⟨by simpa [atomText, needsParens] using this, orL_of_atom this⟩
    | gt =>
      have hg : goodOperand f rp l = true ∧ goodOperand f rp r = true := by simpa [goodExpr] using h
      have := cmp_print_rend f rp .gt l r (by decide) (by decide) hg.1 hg.2
      exact ⟨by simpa [atomText, needsParens] using this, orL_of_atom this⟩
    | ge =>
      have hg : goodOperand f rp l = true ∧ goodOperand f rp r = true := by simpa [goodExpr] using h
      have := cmp_print_rend f rp .ge l r (by decide) (by decide) hg.1 hg.2
      exact ⟨by simpa [atomText, needsParens] using this, orL_of_atom this⟩
  | .existsFn ps, h => by
    have hg : goodExists f ps = true := by simpa [goodExpr] using h
    have hat : R .atom rp (.existsFn ps) (printExpr f (.existsFn ps)) := exists_print_rend f rp ps hg
    exact ⟨by simpa [atomText, needsParens] using hat, orL_of_atom hat⟩
  | .paths _, h => by simp [goodExpr] at h
  | .value _, h => by simp [goodExpr] at h
  | .arithUnary _ _, h => by simp [goodExpr] at h
  | .arithBinary _ _ _, h => by simp [goodExpr] at h
theorem exists_print_rend (f : Nat → Bytes) (rp : Bool) :
    (ps : List Path) → goodExists f ps = true →
      R .atom rp (.existsFn ps) (printExpr f (.existsFn ps))
  | [], h => by simp [goodExists] at h
  | hd :: ps, h => by
    cases hd with
    | root =>
      have hg : goodSteps f ps = true := by simpa [goodExists] using h
      have := R.exists_ rp .root ps 36 [] [] _ [] Ws.nil Ws.nil (.root false)
        (steps_print_rend f ps hg) Ws.nil
      simpa [printExpr, printPaths, printPath, kwExists] using this
    | current =>
      have hg : goodSteps f ps = true := by simpa [goodExists] using h
      have := R.exists_ rp .current ps 64 [] [] _ [] Ws.nil Ws.nil .current
        (steps_print_rend f ps hg) Ws.nil
      simpa [printExpr, printPaths, printPath, kwExists] using this
    | _ => simp [goodExists] at h
/-- a good step sequence, as printed, is a rendering -/
theorem steps_print_rend (f : Nat → Bytes) :
    (ps : List Path) → goodSteps f ps = true → R .steps false (.paths ps) (printPaths f ps)
  | [], _ => by simp [printPaths]; exact .stepsNil
  | p :: ps, h => by
    have hg : goodStepF f p = true ∧ goodSteps f ps = true := by simpa [goodSteps] using h
    have hrest := steps_print_rend f ps hg.2
    cases p with
    | filterExpr e =>
      have he : goodExpr f false e = true := by simpa [goodStepF] using hg.1
      have := R.stepsFilter e ps [] [] [] _ [] [] _ Ws.nil Ws.nil Ws.nil
        (expr_print_rend f false e he).2 Ws.nil Ws.nil hrest
      simpa [printPaths, printPath] using this
    | dotWildcard =>
      have := R.stepsPlain _ ps [] _ [] _ Ws.nil (plainStep_print_rend f .dotWildcard rfl) Ws.nil hrest
      simpa [printPaths] using this
    | bracketWildcard =>
      have := R.stepsPlain _ ps [] _ [] _ Ws.nil (plainStep_print_rend f .bracketWildcard rfl) Ws.nil hrest
      simpa [printPaths] using this
    | dotField s =>
      have := R.stepsPlain _ ps [] _ [] _ Ws.nil
        (plainStep_print_rend f (.dotField s) (by simpa [goodStepF, goodPlainStep] using hg.1)) Ws.nil hrest
      simpa [printPaths] using this
    | colonField s =>
      have := R.stepsPlain _ ps [] _ [] _ Ws.nil
        (plainStep_print_rend f (.colonField s) (by simpa [goodStepF, goodPlainStep] using hg.1)) Ws.nil hrest
      simpa [printPaths] using this
    | objectField s =>
      have := R.stepsPlain _ ps [] _ [] _ Ws.nil
        (plainStep_print_rend f (.objectField s) (by simpa [goodStepF, goodPlainStep] using hg.1)) Ws.nil hrest
      simpa [printPaths] using this
    | arrayIndices is =>
      have := R.stepsPlain _ ps [] _ [] _ Ws.nil
        (plainStep_print_rend f (.arrayIndices is) (by simpa [goodStepF, goodPlainStep] using hg.1)) Ws.nil hrest
      simpa [printPaths] using this
    | root => simp [goodStepF] at hg
    | current => simp [goodStepF] at hg
    | arithmeticExpr e => simp [goodStepF] at hg
    | predicate e => simp [goodStepF] at hg
end

/-- print → parse is the identity on good JSONPaths -/
theorem parse_print (f : Nat → Bytes) (jp : JsonPath) (h : goodJsonPath f jp = true) :
    parseJsonPath (printJsonPath f jp) = .ok jp := by
  cases jp with
  | nil => simp [goodJsonPath] at h
  | cons p ps =>
    cases p with
    | root =>
      have hg : goodSteps f ps = true := by simpa [goodJsonPath] using h
      have := parse_rooted (steps_print_rend f ps hg) [] [] Ws.nil Ws.nil
      simpa [printJsonPath, printPaths, printPath] using this
    | predicate e =>
      cases ps with
      | nil =>
        have hg : goodExpr f true e = true := by simpa [goodJsonPath] using h
        have := parse_predicate (expr_print_rend f true e hg).2 [] [] Ws.nil Ws.nil
        simpa [printJsonPath, printPaths, printPath] using this
      | cons q qs => simp [goodJsonPath] at h
    | _ => simp [goodJsonPath] at h

end PathRT2
end Jsonb
