/-
Agreement theorems, phase 6b, part 3: a small simulation calculus between a translated function body (a `Ctl`
program with early returns) and the model's `Res` program, modulo panic texts and the name of the one error the
model words differently (`RSim` on results, `CSim` on steps, `FSim` on the rest of a function body).
-/
import JsonbModel.Proofs.TranslatedAgreeH2

set_option linter.unusedSimpArgs false
set_option linter.unusedVariables false

namespace Jsonb.TrAgree
open Jsonb.Rs

/-! ## agreement modulo panic texts and the `io::Error` name

`data.read_exact(..)?` fails with an `io::Error`, which `?` converts with the crate's
`impl From<std::io::Error> for Error` = `Error::InvalidUtf8`; the model of JsonParser.lean names that outcome
`"io: failed to fill whole buffer"`.  Slice / index / `unwrap` / overflow panics carry the standard library's
message in the translation and the name of the site in the model.  `RSim` forgets both differences; the
functions the parser is made of are shown never to reach either (`parse_json_string_agrees`,
`parse_json_number_agrees` are plain equalities). -/

def normE (e : String) : String := if e = "io: failed to fill whole buffer" then "InvalidUtf8" else e

theorem normE_of_ne (e : String) (h : e ≠ "io: failed to fill whole buffer") : normE e = e := by
  unfold normE; rw [if_neg h]

/-- a result `r` of the translation against a result `m` of the model: the same value through `g`, the same error
modulo `normE`, a panic for a panic -/
def RSim {α β : Type} (r : Res α) (m : Res β) (g : β → α) : Prop :=
  match m with
  | .ok b => r = .ok (g b)
  | .err e => r = .err (normE e)
  | .panic _ => ∃ s, r = .panic s
  | .fuel => r = .fuel

/-- if the model's answer is neither a panic nor the `io` error, agreement modulo the texts is equality -/
theorem RSim_eq {α β : Type} {r : Res α} {m : Res β} {g : β → α} (h : RSim r m g) (hp : ∀ s, m ≠ .panic s)
    (he : m ≠ .err "io: failed to fill whole buffer") : r = m.map g := by
  cases m with
  | ok b => exact h
  | err e =>
    have : r = .err (normE e) := h
    rw [this, normE_of_ne e (fun c => he (by rw [c]))]; rfl
  | panic s => exact absurd rfl (hp s)
  | fuel => exact h

theorem RSim_of_eq {α β : Type} {r : Res α} {m : Res β} {g : β → α} (h : r = m.map g)
    (he : m ≠ .err "io: failed to fill whole buffer") : RSim r m g := by
  subst h
  cases m with
  | ok b => rfl
  | err e => show Res.err e = Res.err (normE e); rw [normE_of_ne e (fun c => he (by rw [c]))]
  | panic s => exact ⟨s, rfl⟩
  | fuel => rfl

/-- a step `x` of a translated body against a step `m` of the model; the step does not leave the function with a
value -/
def CSim {ρ α β : Type} (x : Ctl ρ α) (m : Res β) (h : β → α) : Prop :=
  match m with
  | .ok b => x = .val (h b)
  | .err e => x = .ret (.err (normE e))
  | .panic _ => ∃ s, x = .ret (.panic s)
  | .fuel => x = .ret .fuel

/-- the rest `x` of a translated body against the rest `m` of the model function -/
def FSim {ρ β : Type} (x : Ctl ρ ρ) (m : Res β) (g : β → ρ) : Prop := RSim (Ctl.run x) m g

theorem FSim_bind {ρ α β γ : Type} {a : Ctl ρ α} {ma : Res γ} {h : γ → α} {k : α → Ctl ρ ρ} {f : γ → Res β}
    {g : β → ρ} (ha : CSim a ma h) (hk : ∀ c, ma = .ok c → FSim (k (h c)) (f c) g) : FSim (a >>= k) (ma >>= f) g := by
  unfold FSim
  cases ma with
  | ok c => have : a = .val (h c) := ha; subst this; exact hk c rfl
  | err e => have : a = .ret (.err (normE e)) := ha; subst this; exact (rfl : Res.err (normE e) = _)
  | panic s => obtain ⟨s', hs⟩ := (ha : ∃ s, a = .ret (.panic s)); subst hs; exact ⟨s', rfl⟩
  | fuel => have : a = .ret .fuel := ha; subst this; exact (rfl : (Res.fuel : Res ρ) = _)

theorem CSim_bind {ρ α α' β γ : Type} {a : Ctl ρ α} {ma : Res γ} {h : γ → α} {k : α → Ctl ρ α'} {f : γ → Res β}
    {h' : β → α'} (ha : CSim a ma h) (hk : ∀ c, ma = .ok c → CSim (k (h c)) (f c) h') : CSim (a >>= k) (ma >>= f) h' := by
  cases ma with
  | ok c => have : a = .val (h c) := ha; subst this; exact hk c rfl
  | err e => have : a = .ret (.err (normE e)) := ha; subst this; exact (rfl : (Ctl.ret _ : Ctl ρ α') = _)
  | panic s => obtain ⟨s', hs⟩ := (ha : ∃ s, a = .ret (.panic s)); subst hs; exact ⟨s', rfl⟩
  | fuel => have : a = .ret .fuel := ha; subst this; exact (rfl : (Ctl.ret _ : Ctl ρ α') = _)

theorem FSim_ret {ρ β : Type} (r : ρ) (b : β) (g : β → ρ) (h : g b = r) : FSim (Ctl.ret (.ok r)) (.ok b) g := by
  subst h; exact (rfl : Res.ok (g b) = _)
theorem FSim_err {ρ β : Type} (e e' : String) (g : β → ρ) (h : e' = normE e) :
    FSim (Ctl.ret (.err e') : Ctl ρ ρ) (.err e : Res β) g := by
  subst h; exact (rfl : Res.err (normE e) = _)
theorem FSim_panic {ρ β : Type} (s s' : String) (g : β → ρ) :
    FSim (Ctl.ret (.panic s') : Ctl ρ ρ) (.panic s : Res β) g := ⟨s', rfl⟩

theorem CSim_val {ρ α β : Type} (b : β) (h : β → α) (a : α) (e : h b = a) : CSim (Ctl.val a : Ctl ρ α) (.ok b) h := by
  subst e; exact (rfl : (Ctl.val (h b) : Ctl ρ α) = _)
theorem CSim_err {ρ α β : Type} (e e' : String) (h : β → α) (he : e' = normE e) :
    CSim (Ctl.ret (.err e') : Ctl ρ α) (.err e : Res β) h := by subst he; exact (rfl : (Ctl.ret _ : Ctl ρ α) = _)
theorem CSim_panic {ρ α β : Type} (s s' : String) (h : β → α) :
    CSim (Ctl.ret (.panic s') : Ctl ρ α) (.panic s : Res β) h := ⟨s', rfl⟩

/-- a primitive of the translation whose `Res` is the model's modulo the texts -/
theorem CSim_ofRes {ρ α β : Type} {r : Res α} {m : Res β} {h : β → α} (hr : RSim r m h) :
    CSim (Ctl.ofRes r : Ctl ρ α) m h := by
  cases m with
  | ok b => have : r = .ok (h b) := hr; subst this; exact (rfl : (Ctl.val (h b) : Ctl ρ α) = _)
  | err e => have : r = .err (normE e) := hr; subst this; exact (rfl : (Ctl.ret _ : Ctl ρ α) = _)
  | panic s => obtain ⟨s', hs⟩ := (hr : ∃ s, r = .panic s); subst hs; exact ⟨s', rfl⟩
  | fuel => have : r = .fuel := hr; subst this; exact (rfl : (Ctl.ret _ : Ctl ρ α) = _)

theorem ite_bind' {ρ α β : Type} (c : Prop) [Decidable c] (x y : Ctl ρ α) (k : α → Ctl ρ β) :
    ((if c then x else y) >>= k) = if c then (x >>= k) else (y >>= k) := by
  split <;> rfl

theorem FSim_run {ρ β : Type} {x : Ctl ρ ρ} {m : Res β} {g : β → ρ} (h : FSim x m g) : RSim (Ctl.run x) m g := h

end Jsonb.TrAgree
