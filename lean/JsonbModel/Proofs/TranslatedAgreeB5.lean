/-
Agreement theorems, phase 2, part 5: the iterators of iterator.rs as step functions.
`iterate_array` / `ArrayIterator::next` and `iteate_object_keys` / `ObjectKeyIterator::next`
(`&mut self` methods: the iterator is returned next to the item) translated from source; one call of
`next` is one step of the model's `iterArrayLoop` / `iterObjKeysLoop` (Walk.lean), and calling it
until `None` collects exactly the model's `iterArray` / `iterObjKeys`.
-/
import JsonbModel.Proofs.TranslatedAgreeB1

set_option linter.unusedSimpArgs false
set_option linter.unusedVariables false

namespace Jsonb.TrAgree
open Jsonb.Rs

/-! ## iterator.rs: `iterate_array` / `ArrayIterator::next` -/

/-- an `ArrayIterator` with natural-number fields -/
def arrIt (value : Bytes) (jo vo length idx : Nat) : Tr.ArrayIterator :=
  ⟨value, (jo : Int), (vo : Int), (length : Int), (idx : Int)⟩

theorem iterate_array_agrees (value : Bytes) (header : Nat) :
    Tr.iterate_array value (header : Int) = .ok (arrIt value 4 (4 * hdrLen header + 4) (hdrLen header) 0) := by
  have hL := hdrLen_lt header
  unfold Tr.iterate_array arrIt
  simp (disch := omega) only [hdrLen_cast, Rs.mul_usize_ok', Rs.add_usize_ok', Ctl.ofRes_ok', Ctl.val_bind', Ctl.run_ret']
  congr 3

/-- one call of `next`: the step of the model's `iterArrayLoop` -/
theorem array_iterator_next_agrees (value : Bytes) (jo vo length idx : Nat)
    (hjo : jo + 4 < 18446744073709551616) (hvo : vo + 268435456 < 18446744073709551616)
    (hidx : idx + 1 < 18446744073709551616) :
    Tr.ArrayIterator.next (arrIt value jo vo length idx) =
      if idx ≥ length then .ok (none, arrIt value jo vo length idx)
      else match readU32At value jo with
        | none => .ok (none, arrIt value jo vo length idx)
        | some w =>
          match Jsonb.slice value vo (vo + jeLen w) with
          | .ok item => .ok (some (ofJE (JE.ofWord w), item), arrIt value (jo + 4) (vo + jeLen w) length (idx + 1))
          | .err e => .err e
          | .panic s => .panic s
          | .fuel => .fuel := by
  unfold Tr.ArrayIterator.next arrIt
  by_cases hi : idx ≥ length
  · have hi' : (idx : Int) ≥ (length : Int) := by omega
    simp only [hi, hi', decide_true, if_true, Ctl.ret_bind', Ctl.run_ret']
  · have hi' : ¬ ((idx : Int) ≥ (length : Int)) := by omega
    simp only [hi, hi', decide_false, Bool.false_eq_true, if_false, Ctl.pure_eq', Ctl.val_bind']
    rw [iterator_read_u32_agrees value jo (Rs.le_max_of_lt hjo)]
    cases hr : readU32At value jo with
    | none => simp only [Rs.okQ_err', Ctl.ret_bind', Ctl.run_ret']
    | some w =>
      have hl := jeLen_lt w
      have h4 : ((4 : Nat) : Int) = 4 := rfl
      have h1 : ((1 : Nat) : Int) = 1 := rfl
      simp only [Rs.okQ_ok', Ctl.val_bind', decode_jentry_agrees, Ctl.ofRes_ok', Rs.usize_nat (jeLen w) (by omega),
        Rs.add_usize_nat vo (jeLen w) (by omega), slice_model]
      cases hs : Jsonb.slice value vo (vo + jeLen w) with
      | err e => simp only [Ctl.ofRes_err', Ctl.ret_bind', Ctl.run_ret']
      | panic p => simp only [Ctl.ofRes_panic', Ctl.ret_bind', Ctl.run_ret']
      | fuel => rfl
      | ok item =>
        simp only [Ctl.ofRes_ok', Ctl.val_bind', ← h4, ← h1, Rs.add_usize_nat idx 1 hidx, Rs.add_usize_nat jo 4 hjo,
          Rs.add_usize_nat vo (jeLen w) (by omega), Ctl.run_ret', ofJE, JE.ofWord]

/-- calling `next` until it answers `None` (at most `n` times), collecting the items -/
def drainArr : Nat → Tr.ArrayIterator → Res (List (Tr.JEntry × Bytes))
  | 0, _ => .fuel
  | n + 1, it =>
    match Tr.ArrayIterator.next it with
    | .ok (none, _) => .ok []
    | .ok (some x, it') =>
      (match drainArr n it' with
       | .ok rest => .ok (x :: rest)
       | .err e => .err e
       | .panic s => .panic s
       | .fuel => .fuel)
    | .err e => .err e
    | .panic s => .panic s
    | .fuel => .fuel

def ofItem (p : JE × Bytes) : Tr.JEntry × Bytes := (ofJE p.1, p.2)

/-- draining the translated iterator gives the list the model's `iterArrayLoop` collects -/
theorem drainArr_agrees (value : Bytes) (length : Nat) : ∀ (n jo vo idx : Nat), idx + n = length →
    jo + n * 4 + 4 < 18446744073709551616 → vo + n * 268435456 + 268435456 < 18446744073709551616 →
    length < 536870912 →
    drainArr (n + 1) (arrIt value jo vo length idx) = (iterArrayLoop value n jo vo).map (List.map ofItem) := by
  intro n
  induction n with
  | zero =>
    intro jo vo idx h _ _ hL
    rw [drainArr, array_iterator_next_agrees value jo vo length idx (by omega) (by omega) (by omega)]
    simp [show idx ≥ length by omega, iterArrayLoop, Res.map, Res.bind]
  | succ n ih =>
    intro jo vo idx h hjo hvo hL
    rw [drainArr, array_iterator_next_agrees value jo vo length idx (by omega) (by omega) (by omega), iterArrayLoop]
    rw [if_neg (by omega)]
    cases hr : readU32At value jo with
    | none => simp [Res.map, Res.bind]
    | some w =>
      have hl := jeLen_lt w
      simp only []
      cases hs : Jsonb.slice value vo (vo + jeLen w) with
      | err e => simp [Res.map, Res.bind]
      | panic p => simp [Res.map, Res.bind]
      | fuel => simp [Res.map, Res.bind]
      | ok item =>
        simp only []
        rw [ih (jo + 4) (vo + jeLen w) (idx + 1) (by omega) (by omega) (by omega) hL]
        cases iterArrayLoop value n (jo + 4) (vo + jeLen w) <;> simp [Res.map, Res.bind, ofItem]

/-- `iterate_array(value, header)` drained = the model's `iterArray` -/
theorem iterate_array_drain (value : Bytes) (header : Nat) :
    (Tr.iterate_array value (header : Int)).bind (drainArr (hdrLen header + 1)) =
      (iterArray value header).map (List.map ofItem) := by
  have hL := hdrLen_lt header
  rw [iterate_array_agrees]
  simp only [Res.bind, iterArray]
  exact drainArr_agrees value (hdrLen header) (hdrLen header) 4 (4 * hdrLen header + 4) 0 (by omega) (by omega) (by omega) hL

/-! ## iterator.rs: `iteate_object_keys` / `ObjectKeyIterator::next` -/

/-- an `ObjectKeyIterator` with natural-number fields -/
def keyIt (value : Bytes) (jo vo length idx : Nat) : Tr.ObjectKeyIterator :=
  ⟨value, (jo : Int), (vo : Int), (length : Int), (idx : Int)⟩

theorem iteate_object_keys_agrees (value : Bytes) (header : Nat) :
    Tr.iteate_object_keys value (header : Int) = .ok (keyIt value 4 (8 * hdrLen header + 4) (hdrLen header) 0) := by
  have hL := hdrLen_lt header
  unfold Tr.iteate_object_keys keyIt
  simp (disch := omega) only [hdrLen_cast, Rs.mul_usize_ok', Rs.add_usize_ok', Ctl.ofRes_ok', Ctl.val_bind', Ctl.run_ret']
  congr 3

/-- one call of `next`: the step of the model's `iterObjKeysLoop` -/
theorem object_key_iterator_next_agrees (value : Bytes) (jo vo length idx : Nat)
    (hjo : jo + 4 < 18446744073709551616) (hvo : vo + 268435456 < 18446744073709551616)
    (hidx : idx + 1 < 18446744073709551616) :
    Tr.ObjectKeyIterator.next (keyIt value jo vo length idx) =
      if idx ≥ length then .ok (none, keyIt value jo vo length idx)
      else match readU32At value jo with
        | none => .ok (none, keyIt value jo vo length idx)
        | some w =>
          match Jsonb.slice value vo (vo + jeLen w) with
          | .ok item => .ok (some item, keyIt value (jo + 4) (vo + jeLen w) length (idx + 1))
          | .err e => .err e
          | .panic s => .panic s
          | .fuel => .fuel := by
  unfold Tr.ObjectKeyIterator.next keyIt
  by_cases hi : idx ≥ length
  · have hi' : (idx : Int) ≥ (length : Int) := by omega
    simp only [hi, hi', decide_true, if_true, Ctl.ret_bind', Ctl.run_ret']
  · have hi' : ¬ ((idx : Int) ≥ (length : Int)) := by omega
    simp only [hi, hi', decide_false, Bool.false_eq_true, if_false, Ctl.pure_eq', Ctl.val_bind']
    rw [iterator_read_u32_agrees value jo (Rs.le_max_of_lt hjo)]
    cases hr : readU32At value jo with
    | none => simp only [Rs.okQ_err', Ctl.ret_bind', Ctl.run_ret']
    | some w =>
      have hl := jeLen_lt w
      have h4 : ((4 : Nat) : Int) = 4 := rfl
      have h1 : ((1 : Nat) : Int) = 1 := rfl
      simp only [Rs.okQ_ok', Ctl.val_bind', decode_jentry_agrees, Ctl.ofRes_ok', Rs.usize_nat (jeLen w) (by omega),
        Rs.add_usize_nat vo (jeLen w) (by omega), slice_model]
      cases hs : Jsonb.slice value vo (vo + jeLen w) with
      | err e => simp only [Ctl.ofRes_err', Ctl.ret_bind', Ctl.run_ret']
      | panic p => simp only [Ctl.ofRes_panic', Ctl.ret_bind', Ctl.run_ret']
      | fuel => rfl
      | ok item =>
        simp only [Ctl.ofRes_ok', Ctl.val_bind', ← h4, ← h1, Rs.add_usize_nat idx 1 hidx, Rs.add_usize_nat jo 4 hjo,
          Rs.add_usize_nat vo (jeLen w) (by omega), Ctl.run_ret', ofJE, JE.ofWord]

/-- calling `next` until it answers `None` (at most `n` times), collecting the items -/
def drainKeys : Nat → Tr.ObjectKeyIterator → Res (List Bytes)
  | 0, _ => .fuel
  | n + 1, it =>
    match Tr.ObjectKeyIterator.next it with
    | .ok (none, _) => .ok []
    | .ok (some x, it') =>
      (match drainKeys n it' with
       | .ok rest => .ok (x :: rest)
       | .err e => .err e
       | .panic s => .panic s
       | .fuel => .fuel)
    | .err e => .err e
    | .panic s => .panic s
    | .fuel => .fuel

/-- draining the translated iterator gives the keys the model's `iterObjKeysLoop` collects -/
theorem drainKeys_agrees_aux (value : Bytes) (length : Nat) : ∀ (n jo vo idx : Nat), idx + n = length →
    jo + n * 4 + 4 < 18446744073709551616 → vo + n * 268435456 + 268435456 < 18446744073709551616 →
    length < 536870912 →
    drainKeys (n + 1) (keyIt value jo vo length idx) = (iterObjKeysLoop value n jo vo).map id := by
  intro n
  induction n with
  | zero =>
    intro jo vo idx h _ _ hL
    rw [drainKeys, object_key_iterator_next_agrees value jo vo length idx (by omega) (by omega) (by omega)]
    simp [show idx ≥ length by omega, iterObjKeysLoop, Res.map, Res.bind]
  | succ n ih =>
    intro jo vo idx h hjo hvo hL
    rw [drainKeys, object_key_iterator_next_agrees value jo vo length idx (by omega) (by omega) (by omega), iterObjKeysLoop]
    rw [if_neg (by omega)]
    cases hr : readU32At value jo with
    | none => simp [Res.map, Res.bind]
    | some w =>
      have hl := jeLen_lt w
      simp only []
      cases hs : Jsonb.slice value vo (vo + jeLen w) with
      | err e => simp [Res.map, Res.bind]
      | panic p => simp [Res.map, Res.bind]
      | fuel => simp [Res.map, Res.bind]
      | ok item =>
        simp only []
        rw [ih (jo + 4) (vo + jeLen w) (idx + 1) (by omega) (by omega) (by omega) hL]
        cases iterObjKeysLoop value n (jo + 4) (vo + jeLen w) <;> simp [Res.map, Res.bind]

/-- `iteate_object_keys(value, header)` drained = the model's `iterObjKeys` -/
theorem iteate_object_keys_drain_aux (value : Bytes) (header : Nat) :
    (Tr.iteate_object_keys value (header : Int)).bind (drainKeys (hdrLen header + 1)) =
      (iterObjKeys value header).map id := by
  have hL := hdrLen_lt header
  rw [iteate_object_keys_agrees]
  simp only [Res.bind, iterArray]
  exact drainKeys_agrees_aux value (hdrLen header) (hdrLen header) 4 (8 * hdrLen header + 4) 0 (by omega) (by omega) (by omega) hL

theorem res_map_id {α : Type} (r : Res α) : r.map id = r := by
  cases r <;> rfl

/-- `iteate_object_keys(value, header)` drained = the model's `iterObjKeys` -/
theorem iteate_object_keys_drain (value : Bytes) (header : Nat) :
    (Tr.iteate_object_keys value (header : Int)).bind (drainKeys (hdrLen header + 1)) = iterObjKeys value header := by
  rw [iteate_object_keys_drain_aux, res_map_id]

end Jsonb.TrAgree
