/-
Quantitative fuel adequacy for the JSONPath selector, part 1: how large a frontier can get.

One non-filter step turns an item `w` into at most `(kids w + 1) * (pathIdx p + 1)` items
(`kids` = number of children of a container, `pathIdx` = number of index / slice entries of the
step).  A position that represents `w` inside `root` forces `kids w ≤ root.length` (every child
owns a 4-byte entry word of the document).  Hence one step over a representing frontier multiplies
its length by at most `(root.length + 1) * (pathIdx p + 1)`; filters only shrink it.
No Mathlib.
-/
import JsonbModel.Proofs.ChainFuel

namespace Jsonb
open JV Sel

/-! ### subscripts -/

theorem toList_length_le_one' {α : Type} (o : Option α) : o.toList.length ≤ 1 := by
  cases o <;> simp

theorem sliceRange_length_le (st en : Int) (n : Nat) : (sliceRange st en n).length ≤ n + 1 := by
  unfold sliceRange
  split
  · simp
  · simp only [List.length_map, List.length_range]
    by_cases h1 : st < 0 <;> by_cases h2 : en ≥ (n : Int) <;>
      simp only [h1, h2, if_true, if_false] <;> omega

theorem convertSlice_length_le (s e : Index) (n : Nat) : (convertSlice s e n).length ≤ n + 1 := by
  rw [convertSlice_eq]; exact sliceRange_length_le _ _ n

/-- the positions one subscript entry selects -/
def idxOne (n : Int) : ArrayIndex → List Nat
  | .index i => (convertIndex i n).toList
  | .slice s e => convertSlice s e n

theorem indicesOf_eq (is : List ArrayIndex) (n : Int) : indicesOf is n = is.flatMap (idxOne n) := by
  unfold indicesOf
  congr 1

theorem idxOne_length_le (ai : ArrayIndex) (n : Nat) : (idxOne n ai).length ≤ n + 1 := by
  cases ai with
  | index i => exact Nat.le_trans (toList_length_le_one' _) (by omega)
  | slice s e => exact convertSlice_length_le s e n

theorem indicesOf_length_le (is : List ArrayIndex) (n : Nat) :
    (indicesOf is n).length ≤ is.length * (n + 1) := by
  rw [indicesOf_eq]
  induction is with
  | nil => simp
  | cons ai is ih =>
    have h1 := idxOne_length_le ai n
    simp only [List.flatMap_cons, List.length_append, List.length_cons, Nat.succ_mul]
    omega

/-! ### one step on one item -/

/-- number of children of a container (0 for a scalar) -/
def kids : JV → Nat
  | arr vs => vs.length
  | obj kvs => kvs.length
  | _ => 0

theorem one_le_mul_succ (a b : Nat) : 1 ≤ (a + 1) * (b + 1) := Nat.mul_pos (by omega) (by omega)

theorem le_mul_succ (a b : Nat) : a ≤ (a + 1) * (b + 1) :=
  Nat.le_trans (Nat.le_succ a) (Nat.le_mul_of_pos_right _ (by omega))

/-- a step yields at most `(children + 1) * (index entries + 1)` items per item -/
theorem stepItem_length (p : Path) (w : JV) :
    (Spec.stepItem p w).length ≤ (kids w + 1) * (pathIdx p + 1) := by
  have h1 := one_le_mul_succ (kids w) (pathIdx p)
  have h2 := le_mul_succ (kids w) (pathIdx p)
  cases p with
  | arrayIndices is =>
    cases w with
    | arr vs =>
      simp only [Spec.stepItem, kids, pathIdx]
      refine Nat.le_trans (List.length_filterMap_le _ _) ?_
      refine Nat.le_trans (indicesOf_length_le is vs.length) ?_
      rw [Nat.mul_comm]
      exact Nat.mul_le_mul_left _ (Nat.le_succ _)
    | _ => simp [Spec.stepItem]
  | dotWildcard => cases w <;> simp [Spec.stepItem, kids] at h2 ⊢; omega
  | bracketWildcard => cases w <;> simp [Spec.stepItem, kids] at h1 h2 ⊢ <;> omega
  | dotField nm =>
    cases w <;> simp only [Spec.stepItem, List.length_nil, Nat.zero_le]
    exact Nat.le_trans (toList_length_le_one' _) h1
  | colonField nm =>
    cases w <;> simp only [Spec.stepItem, List.length_nil, Nat.zero_le]
    exact Nat.le_trans (toList_length_le_one' _) h1
  | objectField nm =>
    cases w <;> simp only [Spec.stepItem, List.length_nil, Nat.zero_le]
    exact Nat.le_trans (toList_length_le_one' _) h1
  | root => cases w <;> simp [Spec.stepItem]
  | current => cases w <;> simp [Spec.stepItem]
  | arithmeticExpr e => cases w <;> simp [Spec.stepItem]
  | filterExpr e => cases w <;> simp [Spec.stepItem]
  | predicate e => cases w <;> simp [Spec.stepItem]

/-! ### children of a represented item have their entry words inside the document -/

theorem kids_le_elen (w : JV) : kids w ≤ elen w := by
  cases w with
  | arr vs => rw [elen_arr]; simp only [kids]; omega
  | obj kvs => rw [elen_obj]; simp only [kids]; omega
  | _ => simp [kids]

theorem at_elen_le {root : Bytes} {off : Nat} {w : JV} (h : At root off w) : elen w ≤ root.length := by
  obtain ⟨a, b, rfl, _⟩ := h
  simp only [elen, List.length_append]; omega

theorem rep_at {root : Bytes} {pos : Pos} {w : JV} (h : Sel.Rep root pos w) : ∃ off, At root off w := by
  cases pos with
  | container off len => exact ⟨off, h.2.2.2⟩
  | scalar ty off len => exact ⟨off, h.2.2.2.2⟩

theorem rep_kids {root : Bytes} {pos : Pos} {w : JV} (h : Sel.Rep root pos w) : kids w ≤ root.length := by
  obtain ⟨off, hat⟩ := rep_at h
  exact Nat.le_trans (kids_le_elen w) (at_elen_le hat)

theorem RepL_mem {root : Bytes} : ∀ {ps : List Pos} {ws : List JV}, Sel.RepL root ps ws →
    ∀ w ∈ ws, ∃ pos, Sel.Rep root pos w
  | [], [], _, w, hw => by simp at hw
  | p :: ps, w' :: ws, h, w, hw => by
    rcases List.mem_cons.1 hw with rfl | hw'
    · exact ⟨p, h.1⟩
    · exact RepL_mem (ps := ps) (ws := ws) h.2 w hw'
  | [], _ :: _, h, _, _ => h.elim
  | _ :: _, [], h, _, _ => h.elim

theorem flatMap_length_le {α β : Type} (f : α → List β) (M : Nat) :
    ∀ (l : List α), (∀ x ∈ l, (f x).length ≤ M) → (l.flatMap f).length ≤ l.length * M
  | [], _ => by simp
  | x :: l, h => by
    have h1 := h x (by simp)
    have h2 := flatMap_length_le f M l (fun y hy => h y (by simp [hy]))
    simp only [List.flatMap_cons, List.length_append, List.length_cons, Nat.succ_mul]
    omega

/-- the multiplier of one step on a document of `L` bytes -/
def stepMul (L : Nat) (p : Path) : Nat := (L + 1) * (pathIdx p + 1)

/-- **one step over a representing frontier** grows it by at most `stepMul` -/
theorem stepAll_length (root : Bytes) (p : Path) (hp : isStep p = true) (ps : List Pos) (ws : List JV)
    (hr : Sel.RepL root ps ws) :
    ∃ ps', stepAll root p ps = .ok ps' ∧ Sel.RepL root ps' (ws.flatMap (Spec.stepItem p)) ∧
      ps'.length ≤ ps.length * stepMul root.length p := by
  obtain ⟨ps', h1, h2⟩ := stepAll_rep root p hp ps ws hr
  refine ⟨ps', h1, h2, ?_⟩
  rw [RepL_length h2, RepL_length hr]
  refine flatMap_length_le _ _ ws (fun w hw => ?_)
  obtain ⟨pos, hpos⟩ := RepL_mem hr w hw
  refine Nat.le_trans (stepItem_length p w) ?_
  exact Nat.mul_le_mul_right _ (Nat.succ_le_succ (rep_kids hpos))

/-- the same on the tree side -/
theorem flatMap_stepItem_length (root : Bytes) (p : Path) (ps : List Pos) (ws : List JV)
    (hr : Sel.RepL root ps ws) :
    (ws.flatMap (Spec.stepItem p)).length ≤ ws.length * stepMul root.length p := by
  refine flatMap_length_le _ _ ws (fun w hw => ?_)
  obtain ⟨pos, hpos⟩ := RepL_mem hr w hw
  refine Nat.le_trans (stepItem_length p w) ?_
  exact Nat.mul_le_mul_right _ (Nat.succ_le_succ (rep_kids hpos))

/-- filtering only removes positions -/
theorem filterAll_length (root : Bytes) (e : Expr) : ∀ (fuel : Nat) (ps ps' : List Pos),
    filterAll fuel root e ps = .ok ps' → ps'.length ≤ ps.length
  | 0, _, _, h => by simp [filterAll] at h
  | fuel + 1, [], ps', h => by
    rw [filterAll_nil] at h
    simp only [Res.ok.injEq] at h; subst h; simp
  | fuel + 1, pos :: rest, ps', h => by
    rw [filterAll_cons] at h
    cases hk : filterExpr fuel root pos e with
    | ok keep =>
      rw [hk] at h
      simp only [] at h
      cases hr : filterAll fuel root e rest with
      | ok r =>
        rw [hr] at h
        simp only [Res.ok.injEq] at h
        subst h
        have := filterAll_length root e fuel rest r hr
        cases keep <;> simp <;> omega
      | err er => rw [hr] at h; simp at h
      | panic s => rw [hr] at h; simp at h
      | fuel => rw [hr] at h; simp at h
    | err er => rw [hk] at h; simp at h
    | panic s => rw [hk] at h; simp at h
    | fuel => rw [hk] at h; simp at h

end Jsonb
