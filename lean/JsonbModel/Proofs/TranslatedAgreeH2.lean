/-
Agreement theorems, phase 6b, part 2: the loops of the cursor helpers — `step_digits` (= `JP.stepDigits`),
`skip_unused` (= `JP.skipUnused`) — and the literals `parse_json_null / true / false` (= `JP.mustAll`).
The `while` loops run on `Rs.whileFuel (buf.len() + 1)`; every iteration moves the cursor forward inside the
buffer, so the bound is never exhausted (shown by the run lemmas, by induction on the remaining bytes).
-/
import JsonbModel.Proofs.TranslatedAgreeH1

set_option linter.unusedSimpArgs false
set_option linter.unusedVariables false

namespace Jsonb.TrAgree
open Jsonb.Rs

/-! ## step_digits -/

/-- one iteration of `while self.idx < self.buf.len()` in `step_digits` -/
theorem sd_loop1_step (buf : Bytes) (idx len : Nat) (hb : buf.length < 9223372036854775808) (hl : len ≤ idx) :
    Tr.Parser.step_digits.loop1 ((len : Int), pz buf idx) =
      if h : idx < buf.length then
        (if JP.isDigit buf[idx] then Ctl.val (.next (((len + 1 : Nat) : Int), pz buf (idx + 1)))
         else Ctl.val (.done ((len : Int), pz buf idx)))
      else Ctl.val (.done ((len : Int), pz buf idx)) := by
  unfold Tr.Parser.step_digits.loop1
  simp only [pz_buf, pz_idx, tp_getByte_nat, tp_len, tp_lt_len]
  by_cases h : idx < buf.length
  · simp only [h, decide_true, Bool.not_true, Bool.false_eq_true, if_false, dite_true, Ctl.pure_eq', Ctl.val_bind', tp_get_of_lt h,
      Option.map_some, Rs.unwrap_some, Ctl.ofRes_ok', tp_isDigit]
    cases hd : JP.isDigit buf[idx] with
    | true =>
      simp only [Bool.not_true, Bool.false_eq_true, if_false, if_true, Ctl.val_bind',
        tp_add_usize len 1 (len + 1) (by omega) (by omega), parser_step_agrees buf idx (by omega), Ctl.ofRes_ok',
        Ctl.pure_eq', Rs.loopStep_val']
    | false =>
      simp only [Bool.not_false, if_true, Ctl.ret_bind', Rs.loopStep_brk', Bool.false_eq_true, if_false]
  · simp only [h, decide_false, Bool.not_false, if_true, Ctl.ret_bind', Rs.loopStep_brk', dite_false]

/-- the loop of `step_digits` is the model's `stepDigitsLoop`; the bound `n` is not exhausted -/
theorem sd_run (buf : Bytes) (hb : buf.length < 9223372036854775808) :
    ∀ (m idx len n : Nat), buf.length - idx = m → len ≤ idx → buf.length - idx < n →
      Rs.whileFuel n ((len : Int), pz buf idx) Tr.Parser.step_digits.loop1 =
        (Ctl.ofRes ((JP.stepDigitsLoop buf idx len).map (fun p => ((p.1 : Int), pz buf p.2))) :
          Ctl (Int × Tr.Parser) (Int × Tr.Parser)) := by
  intro m
  induction m using Nat.strongRecOn with
  | _ m ih =>
    intro idx len n hm hl hn
    obtain ⟨n, rfl⟩ : ∃ k, n = k + 1 := ⟨n - 1, by omega⟩
    have hstep := sd_loop1_step buf idx len hb hl
    rw [JP.stepDigitsLoop]
    by_cases h : idx < buf.length
    · simp only [h, dite_true] at hstep ⊢
      simp only [JP.getUnwrap_lt _ _ _ h, rb_ok]
      cases hd : JP.isDigit buf[idx] with
      | true =>
        rw [hd] at hstep
        simp only [if_true] at hstep
        rw [Rs.whileFuel_next _ _ _ _ hstep]
        simp only [Bool.not_true, Bool.false_eq_true, if_false]
        exact ih (buf.length - (idx + 1)) (by omega) (idx + 1) (len + 1) n rfl (by omega) (by omega)
      | false =>
        rw [hd] at hstep
        simp only [Bool.false_eq_true, if_false] at hstep
        rw [Rs.whileFuel_done _ _ _ _ hstep]
        simp only [Bool.not_false, if_true]
        rfl
    · simp only [h, dite_false] at hstep ⊢
      rw [Rs.whileFuel_done _ _ _ _ hstep]
      rfl

/-- **`Parser::step_digits`** for every buffer and cursor -/
theorem parser_step_digits_agrees (buf : Bytes) (idx : Nat) (hb : buf.length < 9223372036854775808) :
    Tr.Parser.step_digits (pz buf idx) =
      (JP.stepDigits buf idx).map (fun p => ((p.1 : Int), pz buf p.2)) := by
  unfold Tr.Parser.step_digits JP.stepDigits
  have hdec : decide ((pz buf idx).idx = Rs.len (pz buf idx).buf) = (idx == buf.length) := by
    simp only [pz_buf, pz_idx, tp_len]
    by_cases h : idx = buf.length
    · simp [h]
    · have : ¬ (idx : Int) = (buf.length : Int) := by omega
      simp [h, this]
  simp only [hdec]
  cases he : (idx == buf.length) with
  | true => simp only [if_true, Ctl.ret_bind', Ctl.run_ret']; rfl
  | false =>
    simp only [Bool.false_eq_true, if_false, Ctl.pure_eq', Ctl.val_bind', pz_buf, tp_len, Int.toNat_natCast]
    have h0 : ((0 : Int), pz buf idx) = (((0 : Nat) : Int), pz buf idx) := rfl
    rw [h0, sd_run buf hb _ idx 0 (buf.length + 1) rfl (by omega) (by omega)]
    cases JP.stepDigitsLoop buf idx 0 with
    | ok p => rfl
    | err e => rfl
    | panic s => rfl
    | fuel => rfl

/-! ## skip_unused -/

/-- `self.idx + 1 < self.buf.len() && matches!(self.buf[self.idx + 1], b'n' | b'r' | b't')` -/
def ws2 (buf : Bytes) (idx : Nat) : Bool :=
  match buf[idx + 1]? with
  | some c => c == 0x6E || c == 0x72 || c == 0x74
  | none => false

/-- `self.idx + 3 < self.buf.len() && buf[idx+1] == b'x' && buf[idx+2] == b'0' && buf[idx+3] == b'C'` -/
def ws4 (buf : Bytes) (idx : Nat) : Bool :=
  decide (idx + 3 < buf.length) && (buf[idx + 1]? == some 0x78) && (buf[idx + 2]? == some 0x30) && (buf[idx + 3]? == some 0x43)

theorem escWs2_eq (buf : Bytes) (idx : Nat) : JP.escWs2 buf idx = .ok (ws2 buf idx) := by
  unfold JP.escWs2 ws2
  by_cases h : idx + 1 < buf.length
  · simp only [h, if_true, JP.bufIndex_lt _ _ _ h, rb_ok, rb_pure, tp_get_of_lt h]
  · simp only [h, if_false, rb_pure, List.getElem?_eq_none (Nat.le_of_not_lt h)]

theorem escWs4_eq (buf : Bytes) (idx : Nat) : JP.escWs4 buf idx = .ok (ws4 buf idx) := by
  unfold JP.escWs4 ws4
  by_cases h : idx + 3 < buf.length
  · have h1 : idx + 1 < buf.length := by omega
    have h2 : idx + 2 < buf.length := by omega
    simp only [h, if_true, JP.bufIndex_lt _ _ _ h, JP.bufIndex_lt _ _ _ h1, JP.bufIndex_lt _ _ _ h2, rb_ok, rb_pure,
      tp_get_of_lt h, tp_get_of_lt h1, tp_get_of_lt h2, decide_true, Bool.true_and]
    cases e1 : (buf[idx + 1] == 0x78) with
    | false => simp [bne, e1]
    | true =>
      cases e2 : (buf[idx + 2] == 0x30) with
      | false => simp [bne, e1, e2]
      | true => simp [bne, e1, e2]
  · simp only [h, if_false, rb_pure, decide_false, Bool.false_and]

theorem tp_index_lt (s : Bytes) (i : Nat) (h : i < s.length) : Rs.index s (i : Int) = .ok (s[i].toNat : Int) := by
  rw [tp_index_nat, tp_get_of_lt h]

/-- one iteration of `while self.idx < self.buf.len()` in `skip_unused` -/
theorem su_loop1_step (buf : Bytes) (idx : Nat) (hb : buf.length < 9223372036854775808) :
    Tr.Parser.skip_unused.loop1 (pz buf idx) =
      if h : idx < buf.length then
        (if JP.isWs buf[idx] then Ctl.val (.next (pz buf (idx + 1)))
         else if buf[idx] == 0x5C then
           (if ws2 buf idx then Ctl.val (.next (pz buf (idx + 2)))
            else if ws4 buf idx then Ctl.val (.next (pz buf (idx + 4)))
            else Ctl.val (.done (pz buf idx)))
         else Ctl.val (.done (pz buf idx)))
      else Ctl.val (.done (pz buf idx)) := by
  unfold Tr.Parser.skip_unused.loop1
  simp only [pz_buf, pz_idx, tp_getByte_nat, tp_len]
  by_cases h : idx < buf.length
  · have a1 := tp_add_usize idx 1 (idx + 1) (by omega) (by omega)
    have a2 := tp_add_usize idx 2 (idx + 2) (by omega) (by omega)
    have a3 := tp_add_usize idx 3 (idx + 3) (by omega) (by omega)
    have a1' := tp_add_usize' idx 1 (idx + 1) (by omega) (by omega)
    have a2' := tp_add_usize' idx 2 (idx + 2) (by omega) (by omega)
    have a3' := tp_add_usize' idx 3 (idx + 3) (by omega) (by omega)
    simp only [tp_lt_len, h, decide_true, Bool.not_true, Bool.false_eq_true, if_false, dite_true, Ctl.pure_eq', Ctl.val_bind',
      tp_get_of_lt h, Option.map_some, Rs.unwrap_some, Ctl.ofRes_ok', tp_isWs, a1, a2, a3, a1', a2', a3', tp_beq_lit _ 0x5C 92 rfl,
      tp_beq_lit' _ 0x5C 92 rfl]
    cases hw : JP.isWs buf[idx] with
    | true =>
      simp only [if_true, parser_step_agrees buf idx (by omega), Ctl.ofRes_ok', Ctl.val_bind', Ctl.ret_bind', Rs.loopStep_cont']
    | false =>
      simp only [Bool.false_eq_true, if_false, Ctl.val_bind', pz_buf, pz_idx, tp_len]
      cases hbs : (buf[idx] == 0x5C) with
      | false => simp only [Bool.false_eq_true, if_false, Ctl.val_bind', Rs.loopStep_brk']
      | true =>
        simp only [if_true, a1, a3, a1', a3', Ctl.ofRes_ok', Ctl.val_bind', tp_lt_len]
        -- the first escaped white space test
        have t2 : (if decide (idx + 1 < buf.length) = true then
              (Ctl.ofRes (Rs.index buf ((idx + 1 : Nat) : Int)) >>= fun tmp4 =>
                (Ctl.val (decide (tmp4 = 110) || decide (tmp4 = 114) || decide (tmp4 = 116)) :
                  Ctl (Rs.LoopCtl Tr.Parser Tr.Parser) Bool))
            else Ctl.val false) = Ctl.val (ws2 buf idx) := by
          unfold ws2
          by_cases h1 : idx + 1 < buf.length
          · simp only [h1, decide_true, if_true, tp_index_lt _ _ h1, Ctl.ofRes_ok', Ctl.val_bind', tp_get_of_lt h1,
              tp_beq_lit _ 0x6E 110 rfl, tp_beq_lit _ 0x72 114 rfl, tp_beq_lit _ 0x74 116 rfl]
          · simp only [h1, decide_false, Bool.false_eq_true, if_false, List.getElem?_eq_none (Nat.le_of_not_lt h1)]
        rw [t2]
        simp only [Ctl.val_bind']
        cases h2 : ws2 buf idx with
        | true =>
          simp only [if_true, parser_step_by_agrees buf idx 2 (idx + 2) (by omega) (by omega), Ctl.ofRes_ok', Ctl.val_bind', Ctl.ret_bind',
            Rs.loopStep_cont']
        | false =>
          simp only [Bool.false_eq_true, if_false, Ctl.val_bind', pz_buf, pz_idx, tp_len, a1, a2, a3, a1', a2', a3', Ctl.ofRes_ok',
            tp_lt_len]
          unfold ws4
          by_cases h3 : idx + 3 < buf.length
          · have h1 : idx + 1 < buf.length := by omega
            have h2' : idx + 2 < buf.length := by omega
            simp only [h3, decide_true, if_true, tp_index_lt _ _ h1, tp_index_lt _ _ h2', tp_index_lt _ _ h3, Ctl.ofRes_ok',
              Ctl.val_bind', tp_beq_lit _ 0x78 120 rfl, tp_beq_lit _ 0x30 48 rfl, tp_beq_lit _ 0x43 67 rfl,
              tp_get_of_lt h1, tp_get_of_lt h2', tp_get_of_lt h3, Bool.true_and]
            have o1 : (some buf[idx + 1] == some (0x78 : UInt8)) = (buf[idx + 1] == 0x78) := by simp
            have o2 : (some buf[idx + 2] == some (0x30 : UInt8)) = (buf[idx + 2] == 0x30) := by simp
            have o3 : (some buf[idx + 3] == some (0x43 : UInt8)) = (buf[idx + 3] == 0x43) := by simp
            rw [o1, o2, o3]
            cases e1 : (buf[idx + 1] == 0x78) with
            | false => simp only [Bool.false_eq_true, if_false, Ctl.val_bind', Bool.false_and, Rs.loopStep_brk']
            | true =>
              simp only [if_true, Ctl.val_bind', Bool.true_and]
              cases e2 : (buf[idx + 2] == 0x30) with
              | false => simp only [Bool.false_eq_true, if_false, Ctl.val_bind', Bool.false_and, Rs.loopStep_brk']
              | true =>
                simp only [if_true, Ctl.val_bind', Bool.true_and]
                cases e3 : (buf[idx + 3] == 0x43) with
                | false => simp only [Bool.false_eq_true, if_false, Ctl.val_bind', Rs.loopStep_brk']
                | true =>
                  simp only [if_true, parser_step_by_agrees buf idx 4 (idx + 4) (by omega) (by omega), Ctl.ofRes_ok', Ctl.val_bind',
                    Ctl.ret_bind', Rs.loopStep_cont']
          · simp only [h3, decide_false, Bool.false_eq_true, if_false, Ctl.val_bind', Bool.false_and, Rs.loopStep_brk']
  · simp only [tp_lt_len, h, decide_false, Bool.not_false, if_true, Ctl.ret_bind', Rs.loopStep_brk', dite_false]

/-- the loop of `skip_unused` is the model's `skipUnused`; the bound `n` is not exhausted -/
theorem su_run (buf : Bytes) (hb : buf.length < 9223372036854775808) :
    ∀ (m idx n : Nat), buf.length - idx = m → buf.length - idx < n →
      Rs.whileFuel n (pz buf idx) Tr.Parser.skip_unused.loop1 =
        (Ctl.ofRes ((JP.skipUnused buf idx).map (fun j => pz buf j)) : Ctl Tr.Parser Tr.Parser) := by
  intro m
  induction m using Nat.strongRecOn with
  | _ m ih =>
    intro idx n hm hn
    obtain ⟨n, rfl⟩ : ∃ k, n = k + 1 := ⟨n - 1, by omega⟩
    have hstep := su_loop1_step buf idx hb
    rw [JP.skipUnused]
    by_cases h : idx < buf.length
    · simp only [h, dite_true] at hstep ⊢
      simp only [JP.getUnwrap_lt _ _ _ h, rb_ok, escWs2_eq, escWs4_eq]
      cases hw : JP.isWs buf[idx] with
      | true =>
        rw [hw] at hstep
        simp only [if_true] at hstep ⊢
        rw [Rs.whileFuel_next _ _ _ _ hstep]
        exact ih (buf.length - (idx + 1)) (by omega) (idx + 1) n rfl (by omega)
      | false =>
        rw [hw] at hstep
        simp only [Bool.false_eq_true, if_false] at hstep ⊢
        cases hbs : (buf[idx] == 0x5C) with
        | false =>
          rw [hbs] at hstep
          simp only [Bool.false_eq_true, if_false] at hstep ⊢
          rw [Rs.whileFuel_done _ _ _ _ hstep]; rfl
        | true =>
          rw [hbs] at hstep
          simp only [if_true] at hstep ⊢
          cases h2 : ws2 buf idx with
          | true =>
            rw [h2] at hstep
            simp only [if_true] at hstep ⊢
            rw [Rs.whileFuel_next _ _ _ _ hstep]
            have hlt : idx + 1 < buf.length := by
              unfold ws2 at h2
              by_cases h1 : idx + 1 < buf.length
              · exact h1
              · rw [List.getElem?_eq_none (Nat.le_of_not_lt h1)] at h2; cases h2
            exact ih (buf.length - (idx + 2)) (by omega) (idx + 2) n rfl (by omega)
          | false =>
            rw [h2] at hstep
            simp only [Bool.false_eq_true, if_false] at hstep ⊢
            cases h4 : ws4 buf idx with
            | true =>
              rw [h4] at hstep
              simp only [if_true] at hstep ⊢
              rw [Rs.whileFuel_next _ _ _ _ hstep]
              have hlt : idx + 3 < buf.length := by
                unfold ws4 at h4
                by_cases h3 : idx + 3 < buf.length
                · exact h3
                · simp [h3] at h4
              exact ih (buf.length - (idx + 4)) (by omega) (idx + 4) n rfl (by omega)
            | false =>
              rw [h4] at hstep
              simp only [Bool.false_eq_true, if_false] at hstep ⊢
              rw [Rs.whileFuel_done _ _ _ _ hstep]; rfl
    · simp only [h, dite_false] at hstep ⊢
      rw [Rs.whileFuel_done _ _ _ _ hstep]; rfl

/-- **`Parser::skip_unused`** for every buffer and cursor -/
theorem parser_skip_unused_agrees (buf : Bytes) (idx : Nat) (hb : buf.length < 9223372036854775808) :
    Tr.Parser.skip_unused (pz buf idx) = (JP.skipUnused buf idx).map (fun j => pz buf j) := by
  unfold Tr.Parser.skip_unused
  simp only [pz_buf, tp_len, Int.toNat_natCast]
  rw [su_run buf hb _ idx (buf.length + 1) rfl (by omega)]
  cases JP.skipUnused buf idx with
  | ok p => rfl
  | err e => rfl
  | panic s => rfl
  | fuel => rfl

/-! ## the literals -/

/-- `for v in data { self.must_is(v)?; }` is the model's `mustAll` -/
theorem lit_run {ρ : Type} (buf : Bytes) (hb : buf.length < 9223372036854775808)
    (body : Int → Tr.Parser → Ctl ρ (Rs.Step Tr.Parser))
    (hbody : ∀ (c : UInt8) (idx : Nat), body (c.toNat : Int) (pz buf idx) =
      Rs.loopStep (Ctl.ofRes (Tr.Parser.must_is (pz buf idx) (c.toNat : Int)))) :
    ∀ (cs : List UInt8) (idx : Nat),
      Rs.forIn (Rs.iterBytes cs) (pz buf idx) body =
        (Ctl.ofRes ((JP.mustAll buf idx cs).map (fun j => pz buf j)) : Ctl ρ Tr.Parser) := by
  intro cs
  induction cs with
  | nil => intro idx; rfl
  | cons c cs ih =>
    intro idx
    simp only [Rs.iterBytes, List.map_cons] at ih ⊢
    rw [JP.mustAll]
    have hb' := hbody c idx
    rw [parser_must_is_agrees buf idx c (by omega)] at hb'
    cases hm : JP.mustIs buf idx c with
    | ok j =>
      rw [hm] at hb'
      simp only [rm_ok, Ctl.ofRes_ok', Rs.loopStep_val'] at hb'
      rw [Rs.forIn_next _ _ _ _ _ hb', ih j]; rfl
    | err e =>
      rw [hm] at hb'
      simp only [rm_err, Ctl.ofRes_err', Rs.loopStep_err'] at hb'
      rw [Rs.forIn_ret _ _ _ _ _ hb']; rfl
    | panic s =>
      rw [hm] at hb'
      simp only [rm_panic, Ctl.ofRes_panic', Rs.loopStep_panic'] at hb'
      rw [Rs.forIn_ret _ _ _ _ _ hb']; rfl
    | fuel =>
      rw [hm] at hb'
      have : Rs.loopStep (Ctl.ofRes (Res.map (fun j => pz buf j) (Res.fuel : Res Nat))) =
          (Ctl.ret .fuel : Ctl ρ (Rs.Step Tr.Parser)) := rfl
      rw [this] at hb'
      rw [Rs.forIn_ret _ _ _ _ _ hb']; rfl

theorem tp_u8_toNat (c : UInt8) : Rs.u8 (c.toNat : Int) = c := by
  simp [Rs.u8]

/-- **`Parser::parse_json_null`** -/
theorem parser_parse_json_null_agrees (buf : Bytes) (idx : Nat) (hb : buf.length < 9223372036854775808) :
    Tr.Parser.parse_json_null (pz buf idx) =
      (JP.mustAll buf idx [0x6E, 0x75, 0x6C, 0x6C]).map (fun j => (Tr.Value.Null, pz buf j)) := by
  unfold Tr.Parser.parse_json_null
  have hd : Rs.bytesOf [(110 : Int), (117 : Int), (108 : Int), (108 : Int)] = ([0x6E, 0x75, 0x6C, 0x6C] : Bytes) := by decide
  simp only [hd]
  rw [lit_run buf hb Tr.Parser.parse_json_null.loop1 (fun c idx => by rfl)]
  cases JP.mustAll buf idx [0x6E, 0x75, 0x6C, 0x6C] with
  | ok p => rfl
  | err e => rfl
  | panic s => rfl
  | fuel => rfl

/-- **`Parser::parse_json_true`** -/
theorem parser_parse_json_true_agrees (buf : Bytes) (idx : Nat) (hb : buf.length < 9223372036854775808) :
    Tr.Parser.parse_json_true (pz buf idx) =
      (JP.mustAll buf idx [0x74, 0x72, 0x75, 0x65]).map (fun j => (Tr.Value.Bool true, pz buf j)) := by
  unfold Tr.Parser.parse_json_true
  have hd : Rs.bytesOf [(116 : Int), (114 : Int), (117 : Int), (101 : Int)] = ([0x74, 0x72, 0x75, 0x65] : Bytes) := by decide
  simp only [hd]
  rw [lit_run buf hb Tr.Parser.parse_json_true.loop1 (fun c idx => by rfl)]
  cases JP.mustAll buf idx [0x74, 0x72, 0x75, 0x65] with
  | ok p => rfl
  | err e => rfl
  | panic s => rfl
  | fuel => rfl

/-- **`Parser::parse_json_false`** -/
theorem parser_parse_json_false_agrees (buf : Bytes) (idx : Nat) (hb : buf.length < 9223372036854775808) :
    Tr.Parser.parse_json_false (pz buf idx) =
      (JP.mustAll buf idx [0x66, 0x61, 0x6C, 0x73, 0x65]).map (fun j => (Tr.Value.Bool false, pz buf j)) := by
  unfold Tr.Parser.parse_json_false
  have hd : Rs.bytesOf [(102 : Int), (97 : Int), (108 : Int), (115 : Int), (101 : Int)] =
      ([0x66, 0x61, 0x6C, 0x73, 0x65] : Bytes) := by decide
  simp only [hd]
  rw [lit_run buf hb Tr.Parser.parse_json_false.loop1 (fun c idx => by rfl)]
  cases JP.mustAll buf idx [0x66, 0x61, 0x6C, 0x73, 0x65] with
  | ok p => rfl
  | err e => rfl
  | panic s => rfl
  | fuel => rfl

end Jsonb.TrAgree
