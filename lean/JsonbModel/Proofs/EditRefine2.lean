/-
C06 refinement, part 2: the object backbone (raw members, `bInsert` vs `insertKV` simulation,
sortedness / goodness preservation), then `deleteByName`, `concat` (all five cases) and
`objectFilter`.
-/
import JsonbModel.Proofs.SetRefine

namespace Jsonb
open JV

/-! ### sorted keys as `Pairwise` -/

def KLt (a b : Bytes × JV) : Prop := lexCmp a.1 b.1 = .lt

theorem keysSorted_cons_of {k : Bytes} {v : JV} {kvs : List (Bytes × JV)}
    (hs : keysSorted kvs = true) (hlt : ∀ kv ∈ kvs, lexCmp k kv.1 = .lt) :
    keysSorted ((k, v) :: kvs) = true := by
  cases kvs with
  | nil => rfl
  | cons kv kvs =>
    obtain ⟨k2, v2⟩ := kv
    simp only [keysSorted, Bool.and_eq_true, beq_iff_eq]
    exact ⟨hlt (k2, v2) (by simp), hs⟩

theorem keysSorted_iff_pairwise (kvs : List (Bytes × JV)) :
    keysSorted kvs = true ↔ kvs.Pairwise KLt := by
  induction kvs with
  | nil => simp [keysSorted]
  | cons kv kvs ih =>
    obtain ⟨k, v⟩ := kv
    rw [List.pairwise_cons]
    constructor
    · intro h
      have ⟨h1, h2⟩ := keysSorted_cons h
      exact ⟨fun kv hkv => h2 kv hkv, ih.mp h1⟩
    · intro ⟨h1, h2⟩
      exact keysSorted_cons_of (ih.mpr h2) (fun kv hkv => h1 kv hkv)

theorem keysSorted_sublist {a b : List (Bytes × JV)} (h : a.Sublist b) (hs : keysSorted b = true) :
    keysSorted a = true :=
  (keysSorted_iff_pairwise a).mpr (((keysSorted_iff_pairwise b).mp hs).sublist h)

theorem goodK_sublist {a b : List (Bytes × JV)} (h : a.Sublist b) (hg : goodK b = true) : goodK a = true := by
  induction h with
  | slnil => rfl
  | cons x _ ih =>
    obtain ⟨k, v⟩ := x
    simp only [goodK, Bool.and_eq_true] at hg; exact ih hg.2
  | cons_cons x _ ih =>
    obtain ⟨k, v⟩ := x
    simp only [goodK, Bool.and_eq_true] at hg ⊢; exact ⟨hg.1, ih hg.2⟩

theorem goodK_append (a b : List (Bytes × JV)) : goodK (a ++ b) = (goodK a && goodK b) := by
  induction a with
  | nil => simp [goodK]
  | cons x xs ih => obtain ⟨k, v⟩ := x; simp [goodK, ih, Bool.and_assoc]

theorem lexCmp_lt_of_gt {a b : Bytes} (h : lexCmp a b = .gt) : lexCmp b a = .lt := by
  induction a generalizing b with
  | nil => cases b <;> simp_all [lexCmp]
  | cons x xs ih =>
    cases b with
    | nil => simp [lexCmp]
    | cons y ys =>
      simp only [lexCmp] at h ⊢
      by_cases hxy : x < y
      · simp [hxy] at h
      · by_cases hyx : y < x
        · simp [hyx]
        · simp only [hxy, hyx, if_false] at h ⊢
          exact ih h

/-! ### `insertKV` keeps the `BTreeMap` invariant and goodness -/

theorem mem_insertKV {k : Bytes} {v : JV} {m : List (Bytes × JV)} {kv : Bytes × JV}
    (h : kv ∈ insertKV k v m) : kv = (k, v) ∨ kv ∈ m := by
  induction m with
  | nil => simp [insertKV] at h; exact Or.inl h
  | cons kv' m ih =>
    obtain ⟨k', v'⟩ := kv'
    simp only [insertKV] at h
    split at h
    · simp only [List.mem_cons] at h ⊢
      rcases h with h | h | h
      · exact Or.inl h
      · exact Or.inr (Or.inl h)
      · exact Or.inr (Or.inr h)
    · simp only [List.mem_cons] at h ⊢
      rcases h with h | h
      · exact Or.inl h
      · exact Or.inr (Or.inr h)
    · simp only [List.mem_cons] at h ⊢
      rcases h with h | h
      · exact Or.inr (Or.inl h)
      · rcases ih h with h | h
        · exact Or.inl h
        · exact Or.inr (Or.inr h)

theorem insertKV_sorted (k : Bytes) (v : JV) (m : List (Bytes × JV)) (hs : keysSorted m = true) :
    keysSorted (insertKV k v m) = true := by
  induction m with
  | nil => rfl
  | cons kv' m ih =>
    obtain ⟨k', v'⟩ := kv'
    have ⟨hs', hlt⟩ := keysSorted_cons hs
    simp only [insertKV]
    split
    · rename_i hc
      simp only [keysSorted, Bool.and_eq_true, beq_iff_eq]
      exact ⟨hc, hs⟩
    · rename_i hc
      have : k = k' := (lexCmp_eq_iff k k').mp hc
      subst this
      exact keysSorted_cons_of hs' hlt
    · rename_i hc
      refine keysSorted_cons_of (ih hs') ?_
      intro kv hkv
      rcases mem_insertKV hkv with h | h
      · subst h; exact lexCmp_lt_of_gt hc
      · exact hlt kv h

theorem insertKV_good (k : Bytes) (v : JV) (m : List (Bytes × JV)) (hk : k.length < 268435456)
    (hu : validUtf8 k = true) (hv : good v = true) (hg : goodK m = true) :
    goodK (insertKV k v m) = true := by
  induction m with
  | nil => simp [insertKV, goodK, hk, hu, hv]
  | cons kv' m ih =>
    obtain ⟨k', v'⟩ := kv'
    simp only [goodK, Bool.and_eq_true, decide_eq_true_eq] at hg
    simp only [insertKV]
    split
    · simp only [goodK, Bool.and_eq_true, decide_eq_true_eq]
      exact ⟨⟨⟨hk, hu⟩, hv⟩, hg⟩
    · simp only [goodK, Bool.and_eq_true, decide_eq_true_eq]
      exact ⟨⟨⟨hk, hu⟩, hv⟩, hg.2⟩
    · simp only [goodK, Bool.and_eq_true, decide_eq_true_eq]
      exact ⟨hg.1, ih hg.2⟩

theorem insertKV_length_le (k : Bytes) (v : JV) (m : List (Bytes × JV)) :
    (insertKV k v m).length ≤ m.length + 1 := by
  induction m with
  | nil => simp [insertKV]
  | cons kv' m ih =>
    obtain ⟨k', v'⟩ := kv'
    simp only [insertKV]
    split <;> simp <;> omega

/-- folding `insertKV` (a merge with the right side winning) -/
def mergeKV (m es : List (Bytes × JV)) : List (Bytes × JV) :=
  es.foldl (fun m kv => insertKV kv.1 kv.2 m) m

theorem mergeKV_sorted (m es : List (Bytes × JV)) (hs : keysSorted m = true) :
    keysSorted (mergeKV m es) = true := by
  induction es generalizing m with
  | nil => exact hs
  | cons kv es ih => exact ih _ (insertKV_sorted _ _ _ hs)

theorem mergeKV_good (m es : List (Bytes × JV)) (hm : goodK m = true) (he : goodK es = true) :
    goodK (mergeKV m es) = true := by
  induction es generalizing m with
  | nil => exact hm
  | cons kv es ih =>
    obtain ⟨k, v⟩ := kv
    simp only [goodK, Bool.and_eq_true, decide_eq_true_eq] at he
    exact ih _ (insertKV_good k v m he.1.1.1 he.1.1.2 he.1.2 hm) he.2

theorem mergeKV_length_le (m es : List (Bytes × JV)) : (mergeKV m es).length ≤ m.length + es.length := by
  induction es generalizing m with
  | nil => simp [mergeKV]
  | cons kv es ih =>
    have h1 := ih (insertKV kv.1 kv.2 m)
    have h2 := insertKV_length_le kv.1 kv.2 m
    simp only [mergeKV, List.foldl_cons, List.length_cons] at h1 ⊢
    omega

theorem mkObj_eq_mergeKV (es : List (Bytes × JV)) : mkObj es = mergeKV [] es := rfl

/-! ### raw members: the builder side of an object -/

def rawMember (kv : Bytes × JV) : Bytes × BEntry := (kv.1, BEntry.raw (ety kv.2) (elen kv.2) (entry kv.2).2)

theorem memberRaw_memberOf (kv : Bytes × JV) : Fn.memberRaw (memberOf kv) = rawMember kv := rfl

theorem map_memberRaw_memberOf (kvs : List (Bytes × JV)) :
    (kvs.map memberOf).map Fn.memberRaw = kvs.map rawMember := by
  simp [memberRaw_memberOf]

theorem rawMember_eq_rawItem (kv : Bytes × JV) : rawMember kv = (kv.1, rawItem kv.2) := rfl

/-- `bInsert` on raw members simulates `insertKV` on the tree -/
theorem bInsert_raw (k : Bytes) (v : JV) (m : List (Bytes × JV)) :
    bInsert k (rawItem v) (m.map rawMember) = (insertKV k v m).map rawMember := by
  induction m with
  | nil => rfl
  | cons kv' m ih =>
    obtain ⟨k', v'⟩ := kv'
    simp only [List.map_cons, rawMember, bInsert, insertKV]
    cases lexCmp k k' with
    | lt => rfl
    | eq => rfl
    | gt =>
      simp only [List.map_cons, rawMember]
      rw [ih]

theorem pushAll_raw (m es : List (Bytes × JV)) :
    Fn.pushAll (m.map rawMember) (es.map rawMember) = (mergeKV m es).map rawMember := by
  induction es generalizing m with
  | nil => rfl
  | cons kv es ih =>
    simp only [List.map_cons, Fn.pushAll, List.foldl_cons, mergeKV]
    have h := bInsert_raw kv.1 kv.2 m
    have e : (rawMember kv).2 = rawItem kv.2 := rfl
    have e1 : (rawMember kv).1 = kv.1 := rfl
    rw [e, e1, h]
    exact ih _

/-- pushing the raw members of a sorted list into an empty `ObjectBuilder` gives back the list -/
theorem pushAll_sorted (kvs : List (Bytes × JV)) (hs : keysSorted kvs = true) :
    Fn.pushAll [] (kvs.map rawMember) = kvs.map rawMember := by
  have := pushAll_raw [] kvs
  simp only [List.map_nil] at this
  rw [this, ← mkObj_eq_mergeKV, mkObj_sorted kvs hs]

theorem bkeyWords_raw (kvs : List (Bytes × JV)) (hg : goodK kvs = true) :
    bkeyWords (kvs.map rawMember) = keyWords kvs := by
  induction kvs with
  | nil => rfl
  | cons kv kvs ih =>
    obtain ⟨k, v⟩ := kv
    simp only [goodK, Bool.and_eq_true, decide_eq_true_eq] at hg
    simp only [List.map_cons, rawMember, bkeyWords, keyWords, jentryWord_key k hg.1.1.1]
    rw [ih hg.2]

theorem bkeyBytes_raw (kvs : List (Bytes × JV)) : bkeyBytes (kvs.map rawMember) = keyBytes kvs := by
  induction kvs with
  | nil => rfl
  | cons kv kvs ih =>
    obtain ⟨k, v⟩ := kv
    simp only [List.map_cons, rawMember, bkeyBytes, keyBytes]
    rw [ih]

theorem bwordsK_raw (kvs : List (Bytes × JV)) (hg : goodK kvs = true) :
    bwordsK (kvs.map rawMember) = wordsK kvs := by
  induction kvs with
  | nil => rfl
  | cons kv kvs ih =>
    obtain ⟨k, v⟩ := kv
    simp only [goodK, Bool.and_eq_true, decide_eq_true_eq] at hg
    have hl := elen_lt_of_good v hg.1.2
    have hw : jentryWord (ety v) (elen v) = (entry v).1 := by
      have := lor_eq_add_entry v hl
      rwa [Nat.mod_eq_of_lt (by omega)] at this
    have := ih hg.2
    simp only [List.map_cons, rawMember, bwordsK, wordsK, bspec, hw, this]

theorem bpaysK_raw (kvs : List (Bytes × JV)) : bpaysK (kvs.map rawMember) = paysK kvs := by
  induction kvs with
  | nil => rfl
  | cons kv kvs ih =>
    obtain ⟨k, v⟩ := kv
    have := ih
    simp only [List.map_cons, rawMember, bpaysK, paysK, bspec, this]

/-- **building an object from the raw members of good values** (keys in the given order) -/
theorem buildObjectInto_raw (buf : Bytes) (kvs : List (Bytes × JV)) (hn : kvs.length < 536870912)
    (hg : goodK kvs = true) :
    buildObjectInto buf (kvs.map rawMember) = .ok (buf ++ encodeSpec (obj kvs)) := by
  rw [buildObjectInto_spec]
  have hw : headerWord C.OBJECT_CONTAINER_TAG kvs.length = C.OBJECT_CONTAINER_TAG + kvs.length := by
    rw [tag_obj']; exact headerWord_eq 2 _ hn
  simp only [bspec, List.length_map, hw, bkeyWords_raw kvs hg, bwordsK_raw kvs hg, bkeyBytes_raw,
    bpaysK_raw, encodeSpec, entry]

/-! ### documents: header word, kind, and how a whole document becomes one raw entry -/

def hdrOf : JV → Nat
  | arr vs => C.ARRAY_CONTAINER_TAG + vs.length
  | obj kvs => C.OBJECT_CONTAINER_TAG + kvs.length
  | _ => C.SCALAR_CONTAINER_TAG

def kindOf : JV → Nat
  | arr _ => C.ARRAY_CONTAINER_TAG
  | obj _ => C.OBJECT_CONTAINER_TAG
  | _ => C.SCALAR_CONTAINER_TAG

theorem encodeSpec_scalar (v : JV) (h : Spec.isScalar v = true) :
    encodeSpec v = u32be C.SCALAR_CONTAINER_TAG ++ (u32be (entry v).1 ++ (entry v).2) := by
  cases v <;> first | rfl | simp [Spec.isScalar] at h

theorem encodeSpec_container (v : JV) (h : Spec.isScalar v = false) : encodeSpec v = (entry v).2 := by
  cases v <;> first | rfl | simp [Spec.isScalar] at h

theorem hdrOf_scalar (v : JV) (h : Spec.isScalar v = true) : hdrOf v = C.SCALAR_CONTAINER_TAG := by
  cases v <;> first | rfl | simp [Spec.isScalar] at h

theorem kindOf_scalar (v : JV) (h : Spec.isScalar v = true) : kindOf v = C.SCALAR_CONTAINER_TAG := by
  cases v <;> first | rfl | simp [Spec.isScalar] at h

theorem readHdr (v : JV) (hg : goodTop v = true) : readU32At (encodeSpec v) 0 = some (hdrOf v) := by
  cases v with
  | arr vs =>
    simp only [goodTop, Bool.and_eq_true, decide_eq_true_eq] at hg
    simp only [encodeSpec, entry, hdrOf]; exact readU32At_zero _ _ (arr_header_lt _ hg.1)
  | obj kvs =>
    simp only [goodTop, Bool.and_eq_true, decide_eq_true_eq] at hg
    simp only [encodeSpec, entry, hdrOf]; exact readU32At_zero _ _ (obj_header_lt _ hg.1.1)
  | null => exact readU32At_zero _ _ (by decide)
  | bool b => exact readU32At_zero _ _ (by decide)
  | num n => exact readU32At_zero _ _ (by decide)
  | str s => exact readU32At_zero _ _ (by decide)

theorem hdrType_hdrOf (v : JV) (hg : goodTop v = true) : hdrType (hdrOf v) = kindOf v := by
  cases v with
  | arr vs =>
    simp only [goodTop, Bool.and_eq_true, decide_eq_true_eq] at hg
    exact hdrType_arr _ hg.1
  | obj kvs =>
    simp only [goodTop, Bool.and_eq_true, decide_eq_true_eq] at hg
    exact hdrType_obj _ hg.1.1
  | null => exact hdrType_sca
  | bool b => exact hdrType_sca
  | num n => exact hdrType_sca
  | str s => exact hdrType_sca

theorem goodTop_of_good (v : JV) (hg : good v = true) : goodTop v = true := by
  cases v with
  | arr vs =>
    simp only [good, Bool.and_eq_true, decide_eq_true_eq] at hg
    simp only [goodTop, Bool.and_eq_true, decide_eq_true_eq]; exact ⟨hg.1.1, hg.2⟩
  | obj kvs =>
    simp only [good, Bool.and_eq_true, decide_eq_true_eq] at hg
    simp only [goodTop, Bool.and_eq_true, decide_eq_true_eq]; exact ⟨⟨hg.1.1.1, hg.1.2⟩, hg.2⟩
  | null => exact hg
  | bool b => exact hg
  | num n => exact hg
  | str s => exact hg

theorem good_of_goodTop_scalar (v : JV) (h : Spec.isScalar v = true) (hg : goodTop v = true) : good v = true := by
  cases v <;> first | exact hg | simp [Spec.isScalar] at h

/-- `JEntry::decode_jentry(read_u32(value, 4)?)` + `&value[8..]` of a scalar document -/
theorem scalarEntry_spec (v : JV) (h : Spec.isScalar v = true) (hg : good v = true) :
    Fn.scalarEntry (encodeSpec v) = .ok (rawItem v) := by
  have hl := elen_lt_of_good v hg
  rw [encodeSpec_scalar v h]
  unfold Fn.scalarEntry
  rw [readU32At_mid (u32be C.SCALAR_CONTAINER_TAG) _ _ 4 (by simp) (entry_lt v hl)]
  have hs : sliceFrom (u32be C.SCALAR_CONTAINER_TAG ++ (u32be (entry v).1 ++ (entry v).2)) 8 = .ok (entry v).2 := by
    unfold sliceFrom
    rw [if_pos (by simp; omega)]
    rw [← List.append_assoc, List.drop_left' (by simp)]
  simp only [hs, jeType_entry v hl, jeLen_entry v hl]
  rfl

/-- `JEntry::make_container_jentry(value.len())` + the whole value, for a container document
that fits an entry -/
theorem containerEntry_spec (v : JV) (h : Spec.isScalar v = false) (hg : good v = true) :
    Fn.containerEntry (encodeSpec v) = rawItem v := by
  have hl := elen_lt_of_good v hg
  rw [encodeSpec_container v h]
  unfold Fn.containerEntry
  have e : (entry v).2.length = elen v := rfl
  rw [e, Nat.mod_eq_of_lt (by omega)]
  cases v <;> first | rfl | simp [Spec.isScalar] at h

theorem kindOf_container (v : JV) (h : Spec.isScalar v = false) :
    kindOf v = C.ARRAY_CONTAINER_TAG ∨ kindOf v = C.OBJECT_CONTAINER_TAG := by
  cases v <;> first | exact Or.inl rfl | exact Or.inr rfl | simp [Spec.isScalar] at h

/-- the entry `array_insert` / `object_insert` make of the new value (any good value) -/
theorem newEntry_spec (v : JV) (hg : good v = true) :
    (if hdrType (hdrOf v) = C.ARRAY_CONTAINER_TAG ∨ hdrType (hdrOf v) = C.OBJECT_CONTAINER_TAG
      then Res.ok (Fn.containerEntry (encodeSpec v)) else Fn.scalarEntry (encodeSpec v)) = .ok (rawItem v) := by
  rw [hdrType_hdrOf v (goodTop_of_good v hg)]
  cases hs : Spec.isScalar v with
  | true =>
    rw [kindOf_scalar v hs, if_neg (by decide), scalarEntry_spec v hs hg]
  | false =>
    rw [if_pos (kindOf_container v hs), containerEntry_spec v hs hg]

/-- `docEntry` of a good non-array document -/
theorem docEntry_spec (v : JV) (hna : ∀ vs, v ≠ arr vs) (hg : good v = true) :
    Fn.docEntry (encodeSpec v) (kindOf v) = .ok (rawItem v) := by
  unfold Fn.docEntry
  cases hs : Spec.isScalar v with
  | true =>
    rw [kindOf_scalar v hs, if_neg (by decide), scalarEntry_spec v hs hg]
  | false =>
    cases v with
    | obj kvs => rw [kindOf, if_pos rfl, containerEntry_spec _ hs hg]
    | arr vs => exact absurd rfl (hna vs)
    | null => simp [Spec.isScalar] at hs
    | bool b => simp [Spec.isScalar] at hs
    | num n => simp [Spec.isScalar] at hs
    | str s => simp [Spec.isScalar] at hs

/-- `iterate_object_entries` on a whole object document -/
theorem iterObjEntries_doc (kvs : List (Bytes × JV)) (hn : kvs.length < 536870912) (hg : goodK kvs = true) :
    iterObjEntries (encodeSpec (obj kvs)) (C.OBJECT_CONTAINER_TAG + kvs.length) = .ok (kvs.map memberOf) := by
  have := iterObjEntries_spec kvs hn hg []
  simpa [encodeSpec] using this

/-! ### delete_by_name -/

theorem filter_sublist_len {α} (p : α → Bool) (l : List α) : (l.filter p).length ≤ l.length :=
  (List.filter_sublist (p := p) (l := l)).length_le

theorem ety_eq_string_iff (v : JV) : (ety v == C.STRING_TAG) = (match v with | str _ => true | _ => false) := by
  cases v with
  | bool b => cases b <;> decide
  | null => decide
  | num n => show (C.NUMBER_TAG == C.STRING_TAG) = false; decide
  | str s => simp [ety]
  | arr vs => show (C.CONTAINER_TAG == C.STRING_TAG) = false; decide
  | obj kvs => show (C.CONTAINER_TAG == C.STRING_TAG) = false; decide

theorem deleteByName_obj (kvs : List (Bytes × JV)) (hn : kvs.length < 536870912)
    (hs : keysSorted kvs = true) (hg : goodK kvs = true) (name buf : Bytes) :
    Fn.deleteByName (encodeSpec (obj kvs)) name buf
      = .ok (buf ++ encodeSpec (obj (Spec.removeKey name kvs))) := by
  have hdr := readHdr (obj kvs) (by simp [goodTop, hn, hs, hg])
  simp only [hdrOf] at hdr
  simp only [Fn.deleteByName, hdr, hdrType_obj _ hn, if_true, iterObjEntries_doc kvs hn hg]
  have hf : (kvs.map memberOf).filter (fun m => m.1 != name) = (Spec.removeKey name kvs).map memberOf := by
    rw [Spec.removeKey, List.filter_map]; rfl
  have hsub : (Spec.removeKey name kvs).Sublist kvs := List.filter_sublist
  rw [hf, map_memberRaw_memberOf, pushAll_sorted _ (keysSorted_sublist hsub hs)]
  exact buildObjectInto_raw buf _ (Nat.lt_of_le_of_lt hsub.length_le hn) (goodK_sublist hsub hg)

theorem deleteByName_arr (vs : List JV) (hn : vs.length < 536870912) (hg : goodL vs = true) (name buf : Bytes) :
    Fn.deleteByName (encodeSpec (arr vs)) name buf
      = .ok (buf ++ encodeSpec (arr (vs.filter (fun v => match v with | str s => s != name | _ => true)))) := by
  have hdr := readHdr (arr vs) (by simp [goodTop, hn, hg])
  simp only [hdrOf] at hdr
  simp only [Fn.deleteByName, hdr, hdrType_arr _ hn, if_true, iterArray_doc vs hn hg]
  rw [if_neg ne_arr_obj]
  have hf : (vs.map itemOf).filter (fun it => !(it.1.ty == C.STRING_TAG && it.2 == name))
      = (vs.filter (fun v => match v with | str s => s != name | _ => true)).map itemOf := by
    rw [List.filter_map]
    congr 1
    apply List.filter_congr
    intro v _
    simp only [Function.comp, itemOf, ety_eq_string_iff]
    cases v with
    | str s => simp [entry, bne]
    | null => rfl
    | bool b => rfl
    | num n => rfl
    | arr vs => rfl
    | obj kvs => rfl
  have hsub : (vs.filter (fun v => match v with | str s => s != name | _ => true)).Sublist vs := List.filter_sublist
  rw [hf, map_rawOf_itemOf]
  exact buildArrayInto_raw buf _ (Nat.lt_of_le_of_lt hsub.length_le hn) (goodL_sublist hsub hg)

/-- **delete_by_name**: object member / string elements of an array / error on scalars -/
theorem deleteByName_refines (v : JV) (hg : goodTop v = true) (name buf : Bytes) :
    Fn.deleteByName (encodeSpec v) name buf
      = match Spec.deleteByName v name with
        | some r => .ok (buf ++ encodeSpec r)
        | none => .err "InvalidJsonType" := by
  cases hs : Spec.isScalar v with
  | false =>
    cases v with
    | arr vs =>
      simp only [goodTop, Bool.and_eq_true, decide_eq_true_eq] at hg
      simp only [Spec.deleteByName]; exact deleteByName_arr vs hg.1 hg.2 name buf
    | obj kvs =>
      simp only [goodTop, Bool.and_eq_true, decide_eq_true_eq] at hg
      simp only [Spec.deleteByName]; exact deleteByName_obj kvs hg.1.1 hg.1.2 hg.2 name buf
    | null => simp [Spec.isScalar] at hs
    | bool b => simp [Spec.isScalar] at hs
    | num n => simp [Spec.isScalar] at hs
    | str s => simp [Spec.isScalar] at hs
  | true =>
    have hsp : Spec.deleteByName v name = none := by
      cases v <;> first | rfl | simp [Spec.isScalar] at hs
    have hk := hdrType_hdrOf v hg
    rw [kindOf_scalar v hs] at hk
    simp only [Fn.deleteByName, readHdr v hg, hk, hsp]
    rw [if_neg ne_sca_obj, if_neg ne_sca_arr]

/-! ### concat: all five cases -/

theorem kindOf_ne_arr (v : JV) (hna : ∀ vs, v ≠ arr vs) : ¬ kindOf v = C.ARRAY_CONTAINER_TAG := by
  cases v with
  | arr vs => exact absurd rfl (hna vs)
  | obj kvs => exact ne_obj_arr
  | null => exact ne_sca_arr
  | bool b => exact ne_sca_arr
  | num n => exact ne_sca_arr
  | str s => exact ne_sca_arr

theorem concat_obj_obj (l r : List (Bytes × JV)) (hl : l.length < 536870912) (hr : r.length < 536870912)
    (hsl : keysSorted l = true) (hsr : keysSorted r = true) (hgl : goodK l = true) (hgr : goodK r = true)
    (hn : (mergeKV l r).length < 536870912) (buf : Bytes) :
    Fn.concat (encodeSpec (obj l)) (encodeSpec (obj r)) buf
      = .ok (buf ++ encodeSpec (Spec.concat (obj l) (obj r))) := by
  have hdl := readHdr (obj l) (by simp [goodTop, hl, hsl, hgl])
  have hdr := readHdr (obj r) (by simp [goodTop, hr, hsr, hgr])
  simp only [hdrOf] at hdl hdr
  simp only [Fn.concat, hdl, hdr, hdrType_obj _ hl, hdrType_obj _ hr, and_self, if_true,
    iterObjEntries_doc l hl hgl, iterObjEntries_doc r hr hgr, Spec.concat]
  rw [map_memberRaw_memberOf, map_memberRaw_memberOf, pushAll_sorted l hsl, pushAll_raw]
  exact buildObjectInto_raw buf _ hn (mergeKV_good l r hgl hgr)

theorem spec_concat_x_arr (l : JV) (hna : ∀ vs, l ≠ arr vs) (rs : List JV) :
    Spec.concat l (arr rs) = arr (l :: rs) := by
  cases l <;> first | rfl | exact absurd rfl (hna _)

theorem spec_concat_arr_x (ls : List JV) (r : JV) (hna : ∀ vs, r ≠ arr vs) :
    Spec.concat (arr ls) r = arr (ls ++ [r]) := by
  cases r <;> first | rfl | exact absurd rfl (hna _)

theorem spec_concat_x_y (l r : JV) (hl : ∀ vs, l ≠ arr vs) (hr : ∀ vs, r ≠ arr vs)
    (ho : ¬ (kindOf l = C.OBJECT_CONTAINER_TAG ∧ kindOf r = C.OBJECT_CONTAINER_TAG)) :
    Spec.concat l r = arr [l, r] := by
  cases l <;> cases r <;> first | rfl | exact absurd rfl (hl _) | exact absurd rfl (hr _) | exact absurd ⟨rfl, rfl⟩ ho

theorem concat_x_arr (l : JV) (rs : List JV) (hna : ∀ vs, l ≠ arr vs) (hgl : good l = true)
    (hn : rs.length + 1 < 536870912) (hgr : goodL rs = true) (buf : Bytes) :
    Fn.concat (encodeSpec l) (encodeSpec (arr rs)) buf
      = .ok (buf ++ encodeSpec (Spec.concat l (arr rs))) := by
  have hr : rs.length < 536870912 := by omega
  have hgt := goodTop_of_good l hgl
  have hdr := readHdr (arr rs) (by simp [goodTop, hr, hgr])
  simp only [hdrOf] at hdr
  have n1 : ¬ (kindOf l = C.OBJECT_CONTAINER_TAG ∧ C.ARRAY_CONTAINER_TAG = C.OBJECT_CONTAINER_TAG) :=
    fun h => ne_arr_obj h.2
  simp only [Fn.concat, readHdr l hgt, hdr, hdrType_hdrOf l hgt, hdrType_arr _ hr, n1, kindOf_ne_arr l hna, false_and, if_false, if_true,
    docEntry_spec l hna hgl, iterArray_doc rs hr hgr, spec_concat_x_arr l hna]
  rw [map_rawOf_itemOf, ← List.map_cons]
  exact buildArrayInto_raw buf (l :: rs) (by simp; omega) (by simp [goodL, hgl, hgr])

theorem concat_arr_x (ls : List JV) (r : JV) (hna : ∀ vs, r ≠ arr vs) (hgr : good r = true)
    (hn : ls.length + 1 < 536870912) (hgl : goodL ls = true) (buf : Bytes) :
    Fn.concat (encodeSpec (arr ls)) (encodeSpec r) buf
      = .ok (buf ++ encodeSpec (Spec.concat (arr ls) r)) := by
  have hl : ls.length < 536870912 := by omega
  have hgt := goodTop_of_good r hgr
  have hdl := readHdr (arr ls) (by simp [goodTop, hl, hgl])
  simp only [hdrOf] at hdl
  have n1 : ¬ (C.ARRAY_CONTAINER_TAG = C.OBJECT_CONTAINER_TAG ∧ kindOf r = C.OBJECT_CONTAINER_TAG) :=
    fun h => ne_arr_obj h.1
  simp only [Fn.concat, readHdr r hgt, hdl, hdrType_hdrOf r hgt, hdrType_arr _ hl, n1, and_false, if_false, if_true,
    kindOf_ne_arr r hna, docEntry_spec r hna hgr, iterArray_doc ls hl hgl, spec_concat_arr_x ls r hna]
  have e : [rawItem r] = [r].map rawItem := rfl
  rw [map_rawOf_itemOf, e, ← List.map_append]
  exact buildArrayInto_raw buf (ls ++ [r]) (by simp; omega) (by simp [goodL_append, goodL, hgr, hgl])

theorem concat_x_y (l r : JV) (hl : ∀ vs, l ≠ arr vs) (hr : ∀ vs, r ≠ arr vs)
    (ho : ¬ (kindOf l = C.OBJECT_CONTAINER_TAG ∧ kindOf r = C.OBJECT_CONTAINER_TAG))
    (hgl : good l = true) (hgr : good r = true) (buf : Bytes) :
    Fn.concat (encodeSpec l) (encodeSpec r) buf
      = .ok (buf ++ encodeSpec (Spec.concat l r)) := by
  have hgtl := goodTop_of_good l hgl
  have hgtr := goodTop_of_good r hgr
  simp only [Fn.concat, readHdr l hgtl, readHdr r hgtr, hdrType_hdrOf l hgtl, hdrType_hdrOf r hgtr, ho, false_and,
    if_false, kindOf_ne_arr l hl, kindOf_ne_arr r hr, docEntry_spec l hl hgl, docEntry_spec r hr hgr,
    spec_concat_x_y l r hl hr ho]
  have e : [rawItem l, rawItem r] = [l, r].map rawItem := rfl
  rw [e]
  exact buildArrayInto_raw buf [l, r] (by simp) (by simp [goodL, hgl, hgr])

/-- **concat**, all five cases at once: object+object merges with the right side winning,
array+array appends, otherwise the non-array side(s) become single elements.  The only side
conditions are that the operands and the RESULT are within the format's field widths. -/
theorem concat_refines (l r : JV) (hl : goodTop l = true) (hr : goodTop r = true)
    (hres : goodTop (Spec.concat l r) = true) (buf : Bytes) :
    Fn.concat (encodeSpec l) (encodeSpec r) buf = .ok (buf ++ encodeSpec (Spec.concat l r)) := by
  by_cases hla : ∃ ls, l = arr ls
  · obtain ⟨ls, rfl⟩ := hla
    simp only [goodTop, Bool.and_eq_true, decide_eq_true_eq] at hl
    by_cases hra : ∃ rs, r = arr rs
    · obtain ⟨rs, rfl⟩ := hra
      simp only [goodTop, Bool.and_eq_true, decide_eq_true_eq] at hr
      simp only [Spec.concat, goodTop, Bool.and_eq_true, decide_eq_true_eq, List.length_append] at hres
      exact concat_arr_arr ls rs hl.1 hr.1 hres.1 hl.2 hr.2 buf
    · have hna : ∀ vs, r ≠ arr vs := fun vs h => hra ⟨vs, h⟩
      rw [spec_concat_arr_x ls r hna] at hres
      simp only [goodTop, Bool.and_eq_true, decide_eq_true_eq, List.length_append, goodL_append, goodL,
        List.length_cons, List.length_nil, Bool.and_true] at hres
      exact concat_arr_x ls r hna hres.2.2 (by omega) hl.2 buf
  · have hnal : ∀ vs, l ≠ arr vs := fun vs h => hla ⟨vs, h⟩
    by_cases hra : ∃ rs, r = arr rs
    · obtain ⟨rs, rfl⟩ := hra
      simp only [goodTop, Bool.and_eq_true, decide_eq_true_eq] at hr
      rw [spec_concat_x_arr l hnal rs] at hres
      simp only [goodTop, Bool.and_eq_true, decide_eq_true_eq, goodL, List.length_cons] at hres
      exact concat_x_arr l rs hnal hres.2.1 hres.1 hr.2 buf
    · have hnar : ∀ vs, r ≠ arr vs := fun vs h => hra ⟨vs, h⟩
      by_cases ho : kindOf l = C.OBJECT_CONTAINER_TAG ∧ kindOf r = C.OBJECT_CONTAINER_TAG
      · cases l with
        | obj lk =>
          cases r with
          | obj rk =>
            simp only [goodTop, Bool.and_eq_true, decide_eq_true_eq] at hl hr
            simp only [Spec.concat, goodTop, Bool.and_eq_true, decide_eq_true_eq] at hres
            exact concat_obj_obj lk rk hl.1.1 hr.1.1 hl.1.2 hr.1.2 hl.2 hr.2 hres.1.1 buf
          | arr vs => exact absurd rfl (hnar vs)
          | null => exact absurd ho.2 ne_sca_obj
          | bool b => exact absurd ho.2 ne_sca_obj
          | num n => exact absurd ho.2 ne_sca_obj
          | str s => exact absurd ho.2 ne_sca_obj
        | arr vs => exact absurd rfl (hnal vs)
        | null => exact absurd ho.1 ne_sca_obj
        | bool b => exact absurd ho.1 ne_sca_obj
        | num n => exact absurd ho.1 ne_sca_obj
        | str s => exact absurd ho.1 ne_sca_obj
      · rw [spec_concat_x_y l r hnal hnar ho] at hres
        simp only [goodTop, Bool.and_eq_true, decide_eq_true_eq, goodL, Bool.and_true] at hres
        exact concat_x_y l r hnal hnar ho hres.2.1 hres.2.2 buf

end Jsonb
