/-
"Never panics" lemmas for the nom combinators of `JsonbModel/Nom.lean`: one lemma per
combinator, compositional (`NoPanic p → NoPanic q → NoPanic (pair p q)` …).
-/
import JsonbModel.Nom

namespace Jsonb.Nom

/-- the parser never returns `.panic` -/
def NoPanic {α} (p : Parser α) : Prop := ∀ i s, p i ≠ .panic s

theorem bind_ne_panic {α β} {r : PR α} {f : α → Bytes → PR β}
    (hr : ∀ s, r ≠ .panic s) (hf : ∀ a rest s, f a rest ≠ .panic s) :
    ∀ s, r.bind f ≠ .panic s := by
  intro s
  cases r with
  | ok a rest => exact hf a rest s
  | error => simp [PR.bind]
  | failure => simp [PR.bind]
  | panic t => exact absurd rfl (hr t)
  | fuel => simp [PR.bind]

theorem ok_ne_panic {α} (a : α) (r : Bytes) (s : String) : (PR.ok a r) ≠ .panic s := by simp

theorem np_map {α β} {p : Parser α} (f : α → β) (hp : NoPanic p) : NoPanic (map p f) := by
  intro i; unfold map
  exact bind_ne_panic (hp i) (fun _ _ _ => by simp)

theorem np_value {α β} {p : Parser α} (v : β) (hp : NoPanic p) : NoPanic (value v p) := by
  intro i; unfold value
  exact bind_ne_panic (hp i) (fun _ _ _ => by simp)

theorem np_pair {α β} {p : Parser α} {q : Parser β} (hp : NoPanic p) (hq : NoPanic q) :
    NoPanic (pair p q) := by
  intro i; unfold pair
  exact bind_ne_panic (hp i) (fun _ r => bind_ne_panic (hq r) (fun _ _ _ => by simp))

theorem np_preceded {α β} {p : Parser α} {q : Parser β} (hp : NoPanic p) (hq : NoPanic q) :
    NoPanic (preceded p q) := by
  intro i; unfold preceded
  exact bind_ne_panic (hp i) (fun _ r => hq r)

theorem np_terminated {α β} {p : Parser α} {q : Parser β} (hp : NoPanic p) (hq : NoPanic q) :
    NoPanic (terminated p q) := by
  intro i; unfold terminated
  exact bind_ne_panic (hp i) (fun _ r => bind_ne_panic (hq r) (fun _ _ _ => by simp))

theorem np_delimited {α β γ} {p : Parser α} {q : Parser β} {t : Parser γ}
    (hp : NoPanic p) (hq : NoPanic q) (ht : NoPanic t) : NoPanic (delimited p q t) := by
  intro i; unfold delimited
  exact bind_ne_panic (hp i) (fun _ r => bind_ne_panic (hq r) (fun _ r' =>
    bind_ne_panic (ht r') (fun _ _ _ => by simp)))

theorem np_separatedPair {α β γ} {p : Parser α} {q : Parser β} {t : Parser γ}
    (hp : NoPanic p) (hq : NoPanic q) (ht : NoPanic t) : NoPanic (separatedPair p q t) := by
  intro i; unfold separatedPair
  exact bind_ne_panic (hp i) (fun _ r => bind_ne_panic (hq r) (fun _ r' =>
    bind_ne_panic (ht r') (fun _ _ _ => by simp)))

theorem np_tuple3 {α β γ} {p : Parser α} {q : Parser β} {t : Parser γ}
    (hp : NoPanic p) (hq : NoPanic q) (ht : NoPanic t) : NoPanic (tuple3 p q t) := by
  intro i; unfold tuple3
  exact bind_ne_panic (hp i) (fun _ r => bind_ne_panic (hq r) (fun _ r' =>
    bind_ne_panic (ht r') (fun _ _ _ => by simp)))

theorem np_tuple4 {α β γ δ} {p : Parser α} {q : Parser β} {t : Parser γ} {u : Parser δ}
    (hp : NoPanic p) (hq : NoPanic q) (ht : NoPanic t) (hu : NoPanic u) :
    NoPanic (tuple4 p q t u) := by
  intro i; unfold tuple4
  exact bind_ne_panic (hp i) (fun _ r => bind_ne_panic (hq r) (fun _ r' =>
    bind_ne_panic (ht r') (fun _ r'' => bind_ne_panic (hu r'') (fun _ _ _ => by simp))))

theorem np_alt {α} {p q : Parser α} (hp : NoPanic p) (hq : NoPanic q) : NoPanic (alt p q) := by
  intro i s; unfold alt
  have := hp i s
  split
  · exact hq i s
  · assumption

theorem np_opt {α} {p : Parser α} (hp : NoPanic p) : NoPanic (opt p) := by
  intro i s; unfold opt
  have := hp i
  split <;> simp_all

theorem np_cond {α} {p : Parser α} (b : Bool) (hp : NoPanic p) : NoPanic (cond b p) := by
  intro i; unfold cond
  split
  · exact bind_ne_panic (hp i) (fun _ _ _ => by simp)
  · intro s; simp

theorem np_mapRes {α β} {p : Parser α} (f : α → Option β) (hp : NoPanic p) :
    NoPanic (mapRes p f) := by
  intro i; unfold mapRes
  exact bind_ne_panic (hp i) (fun a _ _ => by split <;> simp)

theorem np_not {α} {p : Parser α} (hp : NoPanic p) : NoPanic (not p) := by
  intro i s; unfold not
  have := hp i
  split <;> simp_all

theorem np_cut {α} {p : Parser α} (hp : NoPanic p) : NoPanic (cut p) := by
  intro i s; unfold cut
  have := hp i s
  split
  · simp
  · assumption

theorem many0Loop_ne_panic {α} {p : Parser α} (hp : NoPanic p) (n : Nat) (i : Bytes)
    (acc : List α) (s : String) : many0Loop p n i acc ≠ .panic s := by
  induction n generalizing i acc with
  | zero => simp [many0Loop]
  | succ n ih =>
    unfold many0Loop
    have := hp i
    split
    · simp
    · split
      · simp
      · exact ih _ _
    · simp
    · simp_all
    · simp

theorem np_many0 {α} {p : Parser α} (hp : NoPanic p) : NoPanic (many0 p) := by
  intro i s; unfold many0
  exact many0Loop_ne_panic hp _ _ _ _

theorem sepList1Loop_ne_panic {α β} {sep : Parser β} {p : Parser α} (hs : NoPanic sep)
    (hp : NoPanic p) (n : Nat) (i : Bytes) (acc : List α) (s : String) :
    sepList1Loop sep p n i acc ≠ .panic s := by
  induction n generalizing i acc with
  | zero => simp [sepList1Loop]
  | succ n ih =>
    unfold sepList1Loop
    have h1 := hs i
    split
    · simp
    · rename_i i1 _
      split
      · simp
      · have h2 := hp i1
        split
        · simp
        · exact ih _ _
        · simp
        · simp_all
        · simp
    · simp
    · simp_all
    · simp

theorem np_separatedList1 {α β} {sep : Parser β} {p : Parser α} (hs : NoPanic sep)
    (hp : NoPanic p) : NoPanic (separatedList1 sep p) := by
  intro i; unfold separatedList1
  exact bind_ne_panic (hp i) (fun _ _ s => sepList1Loop_ne_panic hs hp _ _ _ s)

theorem np_char (c : UInt8) : NoPanic (char c) := by
  intro i s; unfold char
  split
  · split <;> simp
  · simp

theorem np_oneOf (cs : List UInt8) : NoPanic (oneOf cs) := by
  intro i s; unfold oneOf
  split
  · split <;> simp
  · simp

theorem np_tag (t : Bytes) : NoPanic (tag t) := by
  intro i s; unfold tag
  split <;> simp

theorem np_tagNoCase (t : Bytes) : NoPanic (tagNoCase t) := by
  intro i s; unfold tagNoCase
  split <;> simp

theorem np_multispace0 : NoPanic multispace0 := by
  intro i s; simp [multispace0]

theorem intLoop_ne_panic (neg : Bool) (lo hi : Int) (bs : Bytes) (v : Int) (first : Bool)
    (s : String) : intLoop neg lo hi bs v first ≠ .panic s := by
  induction bs generalizing v first with
  | nil => simp [intLoop]
  | cons b r ih =>
    unfold intLoop
    split
    · split
      · simp
      · split
        · simp
        · exact ih _ _
    · split <;> simp

theorem np_signedInt (lo hi : Int) : NoPanic (signedInt lo hi) := by
  intro i s; unfold signedInt
  split
  · simp
  · exact intLoop_ne_panic _ _ _ _ _ _ _

theorem np_unsignedInt (hi : Int) : NoPanic (unsignedInt hi) := by
  intro i s; unfold unsignedInt
  split
  · simp
  · exact intLoop_ne_panic _ _ _ _ _ _ _

theorem np_i32 : NoPanic i32 := np_signedInt _ _
theorem np_i64 : NoPanic i64 := np_signedInt _ _
theorem np_u64 : NoPanic u64 := np_map _ (np_unsignedInt _)

theorem np_digit1 : NoPanic digit1 := by
  intro i s; unfold digit1
  split <;> simp

theorem np_optSign : NoPanic optSign := by
  intro i s; unfold optSign
  split <;> simp

theorem np_recognizeFloat : NoPanic recognizeFloat := by
  intro i; unfold recognizeFloat
  refine bind_ne_panic (np_optSign i) (fun neg r0 => ?_)
  simp only []
  refine bind_ne_panic ?_ (fun dsfs r1 => ?_)
  · refine np_alt (p := fun i => _) (q := fun i => _) ?_ ?_ r0
    · intro i
      refine bind_ne_panic (np_digit1 i) (fun ds r => ?_)
      refine bind_ne_panic (np_opt (np_pair (np_char _) (np_opt np_digit1)) r) (fun o r' s => ?_)
      split <;> simp
    · intro i
      exact bind_ne_panic (np_char _ i) (fun _ r => bind_ne_panic (np_digit1 r) (fun _ _ _ => by simp))
  · obtain ⟨ds, fs⟩ := dsfs
    simp only []
    refine bind_ne_panic
      (np_opt (np_tuple3 (np_alt (np_char _) (np_char _)) np_optSign (np_cut np_digit1)) r1)
      (fun o r2 s => ?_)
    split <;> simp

theorem np_double : NoPanic double :=
  np_alt (np_map _ np_recognizeFloat)
    (np_alt (np_value _ (np_tagNoCase _))
      (np_alt (np_value _ (np_tagNoCase _)) (np_value _ (np_tagNoCase _))))

end Jsonb.Nom
