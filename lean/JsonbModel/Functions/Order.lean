/-
Implementation model of `compare`, `contains` and `convert_to_comparable` (JSONB branch).
-/
import JsonbModel.Walk
import JsonbModel.NumOrd

namespace Jsonb.Fn

/-- `jentry_compare_level` -/
def level (ty : Nat) : Nat :=
  if ty = C.NULL_TAG then C.NULL_LEVEL
  else if ty = C.CONTAINER_TAG then C.OBJECT_LEVEL
  else if ty = C.STRING_TAG then C.STRING_LEVEL
  else if ty = C.NUMBER_TAG then C.NUMBER_LEVEL
  else if ty = C.TRUE_TAG then C.TRUE_LEVEL
  else if ty = C.FALSE_TAG then C.FALSE_LEVEL
  else C.INVALID_LEVEL

def readJe (bs : Bytes) (off : Nat) : Res JE :=
  match readU32At bs off with
  | some w => .ok (JE.ofWord w)
  | none => .err "InvalidEOF"

mutual
/-- `compare_scalar(left_jentry, left, right_jentry, right)` -/
def cmpScalar : Nat → JE → Bytes → JE → Bytes → Res Ordering
  | 0, _, _, _, _ => .fuel
  | fuel+1, lj, left, rj, right =>
    if level lj.ty ≠ level rj.ty then .ok (compare (level lj.ty) (level rj.ty))
    else if lj.ty = C.NULL_TAG ∧ rj.ty = C.NULL_TAG then .ok .eq
    else if lj.ty = C.CONTAINER_TAG ∧ rj.ty = C.CONTAINER_TAG then cmpContainer fuel left right
    else if lj.ty = C.STRING_TAG ∧ rj.ty = C.STRING_TAG then
      match slice left 0 lj.len, slice right 0 rj.len with
      | .ok l, .ok r => .ok (lexCmp l r)
      | .panic s, _ => .panic s
      | _, .panic s => .panic s
      | _, _ => .err "slice"
    else if lj.ty = C.NUMBER_TAG ∧ rj.ty = C.NUMBER_TAG then
      match slice left 0 lj.len with
      | .ok l =>
        (match Num.dec l with
         | .ok ln =>
           (match slice right 0 rj.len with
            | .ok r =>
              (match Num.dec r with
               | .ok rn => .ok (Num.cmp ln rn)
               | .err e => .err e
               | .panic s => .panic s
               | .fuel => .fuel)
            | .err e => .err e
            | .panic s => .panic s
            | .fuel => .fuel)
         | .err e => .err e
         | .panic s => .panic s
         | .fuel => .fuel)
      | .err e => .err e
      | .panic s => .panic s
      | .fuel => .fuel
    else if lj.ty = C.TRUE_TAG ∧ rj.ty = C.TRUE_TAG then .ok .eq
    else if lj.ty = C.FALSE_TAG ∧ rj.ty = C.FALSE_TAG then .ok .eq
    else .err "InvalidJsonbJEntry"
/-- `compare_container(left, right)` -/
def cmpContainer : Nat → Bytes → Bytes → Res Ordering
  | 0, _, _ => .fuel
  | fuel+1, left, right =>
    match readU32At left 0, readU32At right 0 with
    | some lh, some rh =>
      let lt := hdrType lh
      let rt := hdrType rh
      if lt = C.ARRAY_CONTAINER_TAG ∧ rt = C.ARRAY_CONTAINER_TAG then
        match sliceFrom left 4, sliceFrom right 4 with
        | .ok l, .ok r =>
          let ll := hdrLen lh
          let rl := hdrLen rh
          cmpArrayLoop fuel l r (min ll rl) 0 (4 * ll) (4 * rl) (compare ll rl)
        | .panic s, _ => .panic s
        | _, .panic s => .panic s
        | _, _ => .err "slice"
      else if lt = C.OBJECT_CONTAINER_TAG ∧ rt = C.OBJECT_CONTAINER_TAG then
        match sliceFrom left 4, sliceFrom right 4 with
        | .ok l, .ok r => cmpObject fuel lh l rh r
        | .panic s, _ => .panic s
        | _, .panic s => .panic s
        | _, _ => .err "slice"
      else if lt = C.ARRAY_CONTAINER_TAG ∧ rt = C.OBJECT_CONTAINER_TAG then .ok .gt
      else if lt = C.OBJECT_CONTAINER_TAG ∧ rt = C.ARRAY_CONTAINER_TAG then .ok .lt
      else .err "InvalidJsonbHeader"
    | _, _ => .err "InvalidEOF"
/-- the element loop of `compare_array` (`left`/`right` start after the header word) -/
def cmpArrayLoop : Nat → Bytes → Bytes → Nat → Nat → Nat → Nat → Ordering → Res Ordering
  | 0, _, _, _, _, _, _, _ => .fuel
  | _+1, _, _, 0, _, _, _, final => .ok final
  | fuel+1, left, right, n+1, jo, lvo, rvo, final =>
    match readJe left jo, readJe right jo with
    | .ok lj, .ok rj =>
      (match sliceFrom left lvo, sliceFrom right rvo with
       | .ok l, .ok r =>
         (match cmpScalar fuel lj l rj r with
          | .ok .eq => cmpArrayLoop fuel left right n (jo + 4) (lvo + lj.len) (rvo + rj.len) final
          | r => r)
       | .panic s, _ => .panic s
       | _, .panic s => .panic s
       | _, _ => .err "slice")
    | .err e, _ => .err e
    | _, .err e => .err e
    | _, _ => .err "read"
/-- `compare_object` -/
def cmpObject : Nat → Nat → Bytes → Nat → Bytes → Res Ordering
  | 0, _, _, _, _ => .fuel
  | fuel+1, lh, left, rh, right =>
    let ll := hdrLen lh
    let rl := hdrLen rh
    match fillKeys left ll 0 (8 * ll), fillKeys right rl 0 (8 * rl) with
    | some (lks, ljo, lvo), some (rks, rjo, rvo) =>
      cmpObjLoop fuel left right (min ll rl) lks rks (8 * ll) (8 * rl) ljo rjo lvo rvo (compare ll rl)
    | _, _ => .err "InvalidEOF"
def cmpObjLoop : Nat → Bytes → Bytes → Nat → List Nat → List Nat → Nat → Nat → Nat → Nat → Nat → Nat →
    Ordering → Res Ordering
  | 0, _, _, _, _, _, _, _, _, _, _, _, _ => .fuel
  | _+1, _, _, 0, _, _, _, _, _, _, _, _, final => .ok final
  | fuel+1, left, right, n+1, lks, rks, lko, rko, ljo, rjo, lvo, rvo, final =>
    match lks, rks with
    | lk :: lks', rk :: rks' =>
      (match sliceFrom left lko, sliceFrom right rko with
       | .ok lkb, .ok rkb =>
         -- keys are compared as scalars with their (string-typed) key entries
         (match cmpScalar fuel ⟨C.STRING_TAG, lk, 0⟩ lkb ⟨C.STRING_TAG, rk, 0⟩ rkb with
          | .ok .eq =>
            (match readJe left ljo, readJe right rjo with
             | .ok lj, .ok rj =>
               (match sliceFrom left lvo, sliceFrom right rvo with
                | .ok l, .ok r =>
                  (match cmpScalar fuel lj l rj r with
                   | .ok .eq =>
                     cmpObjLoop fuel left right n lks' rks' (lko + lk) (rko + rk) (ljo + 4) (rjo + 4)
                       (lvo + lj.len) (rvo + rj.len) final
                   | r => r)
                | .panic s, _ => .panic s
                | _, .panic s => .panic s
                | _, _ => .err "slice")
             | .err e, _ => .err e
             | _, .err e => .err e
             | _, _ => .err "read")
          | r => r)
       | .panic s, _ => .panic s
       | _, .panic s => .panic s
       | _, _ => .err "slice")
    | _, _ => .panic "compare_object: key_jentries.pop_front().unwrap()"
end

/-- `compare(left, right)` (both JSONB) -/
def compareDocs (left right : Bytes) : Res Ordering :=
  let fuel := left.length + right.length + 8
  match readU32At left 0, readU32At right 0 with
  | some lh, some rh =>
    let lt := hdrType lh
    let rt := hdrType rh
    if lt = C.SCALAR_CONTAINER_TAG ∧ rt = C.SCALAR_CONTAINER_TAG then
      match readJe left 4, readJe right 4 with
      | .ok lj, .ok rj =>
        (match sliceFrom left 8, sliceFrom right 8 with
         | .ok l, .ok r => cmpScalar fuel lj l rj r
         | .panic s, _ => .panic s
         | _, .panic s => .panic s
         | _, _ => .err "slice")
      | .err e, _ => .err e
      | _, .err e => .err e
      | _, _ => .err "read"
    else if (lt = C.ARRAY_CONTAINER_TAG ∧ rt = C.ARRAY_CONTAINER_TAG)
         ∨ (lt = C.OBJECT_CONTAINER_TAG ∧ rt = C.OBJECT_CONTAINER_TAG) then cmpContainer fuel left right
    else if lt = C.SCALAR_CONTAINER_TAG ∧ (rt = C.ARRAY_CONTAINER_TAG ∨ rt = C.OBJECT_CONTAINER_TAG) then
      match readJe left 4 with
      | .ok lj => if lj.ty = C.NULL_TAG then .ok .gt else .ok .lt
      | .err e => .err e
      | .panic s => .panic s
      | .fuel => .fuel
    else if (lt = C.ARRAY_CONTAINER_TAG ∨ lt = C.OBJECT_CONTAINER_TAG) ∧ rt = C.SCALAR_CONTAINER_TAG then
      match readJe right 4 with
      | .ok rj => if rj.ty = C.NULL_TAG then .ok .lt else .ok .gt
      | .err e => .err e
      | .panic s => .panic s
      | .fuel => .fuel
    else if lt = C.ARRAY_CONTAINER_TAG ∧ rt = C.OBJECT_CONTAINER_TAG then .ok .gt
    else if lt = C.OBJECT_CONTAINER_TAG ∧ rt = C.ARRAY_CONTAINER_TAG then .ok .lt
    else .err "InvalidJsonbHeader"
  | _, _ => .err "InvalidEOF"

/-! ### contains -/

/-- `scalar_eq(type_code, left, right)` (after the `fix:` commit) -/
def scalarEq (ty : Nat) (l r : Bytes) : Bool :=
  if ty = C.NUMBER_TAG then
    match Num.dec l, Num.dec r with
    | .ok a, .ok b => Num.cmp a b == .eq
    | _, _ => false
  else l == r

/-- `array_contains(arr, arr_header, val, val_jentry)` -/
def arrayContains (arr : Bytes) (hdr : Nat) (val : Bytes) (vty : Nat) : Res Bool :=
  (iterArray arr hdr).map (fun items => items.any (fun it => it.1.ty == vty && scalarEq it.1.ty it.2 val))

mutual
/-- `contains_jsonb(left, right)` -/
def containsJsonb : Nat → Bytes → Bytes → Res Bool
  | 0, _, _ => .fuel
  | fuel+1, left, right =>
    match readU32At left 0, readU32At right 0 with
    | some lh, some rh =>
      let lt := hdrType lh
      let rt := hdrType rh
      if lt = C.ARRAY_CONTAINER_TAG ∧ rt = C.SCALAR_CONTAINER_TAG then
        match readJe right 4, sliceFrom right 8 with
        | .ok rj, .ok rv => arrayContains left lh rv rj.ty
        | .err e, _ => .err e
        | _, .panic s => .panic s
        | _, _ => .err "slice"
      else if lt ≠ rt then .ok false
      else if rt = C.OBJECT_CONTAINER_TAG then
        if hdrLen lh < hdrLen rh then .ok false
        else
          match iterObjEntries right rh with
          | .ok rms => containsMembers fuel left lh rms
          | .err e => .err e
          | .panic s => .panic s
          | .fuel => .fuel
      else if rt = C.ARRAY_CONTAINER_TAG then
        match iterArray right rh, iterArray left lh with
        | .ok ritems, .ok litems => containsItems fuel left lh litems ritems
        | .panic s, _ => .panic s
        | _, .panic s => .panic s
        | _, _ => .err "iter"
      else
        match readJe left 4, readJe right 4 with
        | .ok lj, .ok rj =>
          (match sliceFrom left 8, sliceFrom right 8 with
           | .ok l, .ok r => .ok (lj.ty == rj.ty && scalarEq lj.ty l r)
           | .panic s, _ => .panic s
           | _, .panic s => .panic s
           | _, _ => .err "slice")
        | .err e, _ => .err e
        | _, .err e => .err e
        | _, _ => .err "read"
    | _, _ => .err "InvalidEOF"
/-- the loop over the right object's members -/
def containsMembers : Nat → Bytes → Nat → List (Bytes × JE × Bytes) → Res Bool
  | 0, _, _, _ => .fuel
  | _+1, _, _, [] => .ok true
  | fuel+1, left, lh, (rkey, rj, rval) :: rest =>
    match getJentryByName left 0 lh rkey false with
    | .ok (some (lj, lvo)) =>
      if lj.ty ≠ rj.ty then .ok false
      else
        match slice left lvo (lvo + lj.len) with
        | .ok lval =>
          if rj.ty ≠ C.CONTAINER_TAG then
            (if scalarEq rj.ty lval rval then containsMembers fuel left lh rest else .ok false)
          else
            (match containsJsonb fuel lval rval with
             | .ok true => containsMembers fuel left lh rest
             | r => r)
        | .err e => .err e
        | .panic s => .panic s
        | .fuel => .fuel
    | .ok none => .ok false
    | .err e => .err e
    | .panic s => .panic s
    | .fuel => .fuel
/-- the loop over the right array's elements -/
def containsItems : Nat → Bytes → Nat → List (JE × Bytes) → List (JE × Bytes) → Res Bool
  | 0, _, _, _, _ => .fuel
  | _+1, _, _, _, [] => .ok true
  | fuel+1, left, lh, litems, (rj, rval) :: rest =>
    if rj.ty ≠ C.CONTAINER_TAG then
      (if litems.any (fun it => it.1.ty == rj.ty && scalarEq it.1.ty it.2 rval)
       then containsItems fuel left lh litems rest else .ok false)
    else
      match containsNested fuel (litems.filter (fun it => it.1.ty == C.CONTAINER_TAG)) rval with
      | .ok true => containsItems fuel left lh litems rest
      | r => r
/-- `for l_nested_val in l_nested { if contains_jsonb(l_nested_val, r_val)? { … break } }` -/
def containsNested : Nat → List (JE × Bytes) → Bytes → Res Bool
  | 0, _, _ => .fuel
  | _+1, [], _ => .ok false
  | fuel+1, (_, lval) :: rest, rval =>
    match containsJsonb fuel lval rval with
    | .ok false => containsNested fuel rest rval
    | r => r
end

/-- `contains(left, right)` (both JSONB): errors become `false` -/
def contains (left right : Bytes) : Res Bool :=
  match containsJsonb (2 * (left.length + right.length) + 8) left right with
  | .ok b => .ok b
  | .err _ => .ok false
  | .panic s => .panic s
  | .fuel => .fuel

/-! ### convert_to_comparable -/

/-- order-preserving 8-byte image of `as_f64` bits -/
def f64Key (bits : Nat) : Bytes :=
  if F64.signBit bits then beN 8 (9223372036854775807 - bits % 9223372036854775808)
  else beN 8 (9223372036854775808 + bits % 9223372036854775808)

/-- `depth.saturating_add(1)` on a u8 (after the `fix:` commit; it used to be `depth + 1`) -/
def incDepth (d : Nat) : Res Nat := .ok (if d + 1 ≤ 255 then d + 1 else 255)

mutual
/-- `scalar_convert_to_comparable(depth, jentry, value, buf)` → appended bytes -/
def keyScalar : Nat → Nat → JE → Bytes → Res Bytes
  | 0, _, _, _ => .fuel
  | fuel+1, depth, je, value =>
    let d : Bytes := [UInt8.ofNat depth]
    if je.ty = C.CONTAINER_TAG then
      match readU32At value 0 with
      | none => .ok d
      | some h =>
        let length := hdrLen h
        if hdrType h = C.ARRAY_CONTAINER_TAG then
          match incDepth depth, sliceFrom value 4 with
          | .ok d1, .ok v => (keyArray fuel d1 length v 0 (4 * length)).map (fun k => d ++ (UInt8.ofNat C.ARRAY_LEVEL :: k))
          | .panic s, _ => .panic s
          | _, .panic s => .panic s
          | _, _ => .err "x"
        else if hdrType h = C.OBJECT_CONTAINER_TAG then
          match incDepth depth, sliceFrom value 4 with
          | .ok d1, .ok v => (keyObject fuel d1 length v).map (fun k => d ++ (UInt8.ofNat C.OBJECT_LEVEL :: k))
          | .panic s, _ => .panic s
          | _, .panic s => .panic s
          | _, _ => .err "x"
        else .ok d
    else
      let lv : Bytes := d ++ [UInt8.ofNat (level je.ty)]
      if je.ty = C.STRING_TAG then
        match slice value 0 je.len with
        | .ok s => .ok (lv ++ s)
        | .err e => .err e
        | .panic s => .panic s
        | .fuel => .fuel
      else if je.ty = C.NUMBER_TAG then
        match slice value 0 je.len with
        | .ok s =>
          (match Num.dec s with
           | .ok n => .ok (lv ++ f64Key (Num.asF64 n))
           | _ => .ok lv)
        | .err e => .err e
        | .panic s => .panic s
        | .fuel => .fuel
      else .ok lv
/-- `array_convert_to_comparable(depth, length, value, buf)` -/
def keyArray : Nat → Nat → Nat → Bytes → Nat → Nat → Res Bytes
  | 0, _, _, _, _, _ => .fuel
  | _+1, _, 0, _, _, _ => .ok []
  | fuel+1, depth, n+1, value, jo, vo =>
    match readU32At value jo with
    | none => .ok []
    | some w =>
      match sliceFrom value vo with
      | .ok v =>
        (match keyScalar fuel depth (JE.ofWord w) v with
         | .ok k => (keyArray fuel depth n value (jo + 4) (vo + jeLen w)).map (k ++ ·)
         | r => r)
      | .err e => .err e
      | .panic s => .panic s
      | .fuel => .fuel
/-- `object_convert_to_comparable(depth, length, value, buf)` -/
def keyObject : Nat → Nat → Nat → Bytes → Res Bytes
  | 0, _, _, _ => .fuel
  | fuel+1, depth, length, value =>
    match fillKeys value length 0 (8 * length) with
    | none => .ok []
    | some (ks, jo, vo) => keyObjLoop fuel depth value ks (8 * length) jo vo
def keyObjLoop : Nat → Nat → Bytes → List Nat → Nat → Nat → Nat → Res Bytes
  | 0, _, _, _, _, _, _ => .fuel
  | _+1, _, _, [], _, _, _ => .ok []
  | fuel+1, depth, value, klen :: ks, ko, jo, vo =>
    match sliceFrom value ko with
    | .ok kv =>
      (match keyScalar fuel depth ⟨C.STRING_TAG, klen, 0⟩ kv with
       | .ok kk =>
         (match readU32At value jo with
          | none => .ok kk
          | some w =>
            match sliceFrom value vo with
            | .ok vv =>
              (match keyScalar fuel depth (JE.ofWord w) vv with
               | .ok vk => (keyObjLoop fuel depth value ks (ko + klen) (jo + 4) (vo + jeLen w)).map (fun r => kk ++ (vk ++ r))
               | r => r)
            | .err e => .err e
            | .panic s => .panic s
            | .fuel => .fuel)
       | r => r)
    | .err e => .err e
    | .panic s => .panic s
    | .fuel => .fuel
end

/-- `convert_to_comparable(value, buf)` (JSONB): returns the new buffer -/
def convertToComparable (value buf : Bytes) : Res Bytes :=
  let fuel := 2 * value.length + 8
  match readU32At value 0 with
  | none => .ok buf
  | some h =>
    if hdrType h = C.SCALAR_CONTAINER_TAG then
      match readU32At value 4 with
      | none => .ok buf
      | some w =>
        match sliceFrom value 8 with
        | .ok v => (keyScalar fuel 0 (JE.ofWord w) v).map (buf ++ ·)
        | .err e => .err e
        | .panic s => .panic s
        | .fuel => .fuel
    else if hdrType h = C.ARRAY_CONTAINER_TAG then
      match sliceFrom value 4 with
      | .ok v => (keyArray fuel 1 (hdrLen h) v 0 (4 * hdrLen h)).map (fun k => buf ++ ([0, UInt8.ofNat C.ARRAY_LEVEL] ++ k))
      | .err e => .err e
      | .panic s => .panic s
      | .fuel => .fuel
    else if hdrType h = C.OBJECT_CONTAINER_TAG then
      match sliceFrom value 4 with
      | .ok v => (keyObject fuel 1 (hdrLen h) v).map (fun k => buf ++ ([0, UInt8.ofNat C.OBJECT_LEVEL] ++ k))
      | .err e => .err e
      | .panic s => .panic s
      | .fuel => .fuel
    else .ok buf

end Jsonb.Fn
