/-
Implementation model of `to_string` / `to_pretty_string` (JSONB branch): `container_to_string`,
`scalar_to_string`, `escape_scalar_string`, `PrettyOpts`.  Output = the UTF-8 bytes of the Rust
`String`.  Float formatting (ryu) is external: `fmt bits` is supplied by the caller and validated
separately (`F64.goodFmt`); integers are `itoa` = decimal.
-/
import JsonbModel.Walk
import JsonbModel.NumOrd

namespace Jsonb.Fn

def hexLower (n : Nat) : UInt8 := if n < 10 then UInt8.ofNat (48 + n) else UInt8.ofNat (87 + n)

/-- decimal digits of a natural number (`itoa`) -/
def natDigits (n : Nat) : Bytes := (Nat.toDigits 10 n).map (fun c => UInt8.ofNat c.toNat)
def intDigits (i : Int) : Bytes := if i < 0 then 0x2D :: natDigits (-i).toNat else natDigits i.toNat

/-- `Display for Number` -/
def numToString (fmt : Nat → Bytes) : Num → Bytes
  | .int i => intDigits i
  | .uint n => natDigits n
  | .float b => fmt b

/-- `escape_scalar_string(value, start, end, json)`: bytes appended (after the `fix:` commit every
control character is escaped).  `value[i]` out of range is a panic. -/
def escapeBytes : Bytes → Bytes
  | [] => []
  | b :: bs =>
    (if b == 0x5C then [0x5C, 0x5C]
     else if b == 0x22 then [0x5C, 0x22]
     else if b == 0x08 then [0x5C, 0x62]
     else if b == 0x0C then [0x5C, 0x66]
     else if b == 0x0A then [0x5C, 0x6E]
     else if b == 0x0D then [0x5C, 0x72]
     else if b == 0x09 then [0x5C, 0x74]
     else if b < 0x20 then [0x5C, 0x75, 0x30, 0x30, hexLower (b.toNat / 16), hexLower (b.toNat % 16)]
     else [b]) ++ escapeBytes bs

def escapeString (value : Bytes) (s e : Nat) : Res Bytes :=
  match slice value s e with
  | .ok p => .ok (0x22 :: (escapeBytes p ++ [0x22]))
  | .err er => .err er
  | .panic m => .panic m
  | .fuel => .fuel

def spaces (n : Nat) : Bytes := List.replicate n 0x20
def lit (s : String) : Bytes := s.toUTF8.toList

mutual
/-- `container_to_string(value, offset, json, pretty_opts)` → text appended -/
def containerToString (fmt : Nat → Bytes) : Nat → Bytes → Nat → Bool → Nat → Res Bytes
  | 0, _, _, _, _ => .fuel
  | fuel+1, value, offset, pretty, indent =>
    match readU32At value offset with
    | none => .err "InvalidEOF"
    | some h =>
      let length := hdrLen h
      if hdrType h = C.SCALAR_CONTAINER_TAG then
        (scalarToString fmt fuel value (4 + offset) (8 + offset) pretty indent).map (·.1)
      else if hdrType h = C.ARRAY_CONTAINER_TAG then
        match arrayItems fmt fuel value length 0 (4 + offset) (4 + offset + 4 * length) pretty (indent + 2) with
        | .ok body =>
          .ok ((if pretty then lit "[\n" else lit "[") ++ body ++
               (if pretty then 0x0A :: spaces indent else []) ++ lit "]")
        | .err e => .err e
        | .panic s => .panic s
        | .fuel => .fuel
      else if hdrType h = C.OBJECT_CONTAINER_TAG then
        match fillKeys value length (4 + offset) (4 + offset + 8 * length) with
        | none => .err "InvalidEOF"
        | some (ks, jo, vo) =>
          match objectItems fmt fuel value ks 0 (4 + offset + 8 * length) jo vo pretty (indent + 2) with
          | .ok body =>
            .ok ((if pretty then lit "{\n" else lit "{") ++ body ++
                 (if pretty then 0x0A :: spaces indent else []) ++ lit "}")
          | .err e => .err e
          | .panic s => .panic s
          | .fuel => .fuel
      else .ok []
/-- `scalar_to_string(value, jentry_offset, value_offset, json, pretty_opts)` → (text, length) -/
def scalarToString (fmt : Nat → Bytes) : Nat → Bytes → Nat → Nat → Bool → Nat → Res (Bytes × Nat)
  | 0, _, _, _, _, _ => .fuel
  | fuel+1, value, jo, vo, pretty, indent =>
    match readU32At value jo with
    | none => .err "InvalidEOF"
    | some w =>
      let ty := jeType w
      let len := jeLen w
      if ty = C.NULL_TAG then .ok (lit "null", len)
      else if ty = C.TRUE_TAG then .ok (lit "true", len)
      else if ty = C.FALSE_TAG then .ok (lit "false", len)
      else if ty = C.NUMBER_TAG then
        match slice value vo (vo + len) with
        | .ok p =>
          (match Num.dec p with
           | .ok n => .ok (numToString fmt n, len)
           | .err e => .err e
           | .panic s => .panic s
           | .fuel => .fuel)
        | .err e => .err e
        | .panic s => .panic s
        | .fuel => .fuel
      else if ty = C.STRING_TAG then (escapeString value vo (vo + len)).map (fun t => (t, len))
      else if ty = C.CONTAINER_TAG then (containerToString fmt fuel value vo pretty indent).map (fun t => (t, len))
      else .ok ([], len)
/-- the `for i in 0..length` loop of the array arm; `indent` = indentation of the items -/
def arrayItems (fmt : Nat → Bytes) : Nat → Bytes → Nat → Nat → Nat → Nat → Bool → Nat → Res Bytes
  | 0, _, _, _, _, _, _, _ => .fuel
  | _+1, _, 0, _, _, _, _, _ => .ok []
  | fuel+1, value, n+1, i, jo, vo, pretty, indent =>
    match scalarToString fmt fuel value jo vo pretty indent with
    | .ok (t, len) =>
      (match arrayItems fmt fuel value n (i + 1) (jo + 4) (vo + len) pretty indent with
       | .ok rest =>
         .ok ((if i > 0 then (if pretty then lit ",\n" else lit ",") else []) ++
              (if pretty then spaces indent else []) ++ t ++ rest)
       | .err e => .err e
       | .panic s => .panic s
       | .fuel => .fuel)
    | .err e => .err e
    | .panic s => .panic s
    | .fuel => .fuel
/-- the member loop of the object arm -/
def objectItems (fmt : Nat → Bytes) : Nat → Bytes → List Nat → Nat → Nat → Nat → Nat → Bool → Nat → Res Bytes
  | 0, _, _, _, _, _, _, _, _ => .fuel
  | _+1, _, [], _, _, _, _, _, _ => .ok []
  | fuel+1, value, klen :: ks, i, ko, jo, vo, pretty, indent =>
    match escapeString value ko (ko + klen) with
    | .ok kt =>
      (match scalarToString fmt fuel value jo vo pretty indent with
       | .ok (t, len) =>
         (match objectItems fmt fuel value ks (i + 1) (ko + klen) (jo + 4) (vo + len) pretty indent with
          | .ok rest =>
            .ok ((if i > 0 then (if pretty then lit ",\n" else lit ",") else []) ++
                 (if pretty then spaces indent else []) ++ kt ++ (if pretty then lit ": " else lit ":") ++ t ++ rest)
          | .err e => .err e
          | .panic s => .panic s
          | .fuel => .fuel)
       | .err e => .err e
       | .panic s => .panic s
       | .fuel => .fuel)
    | .err e => .err e
    | .panic s => .panic s
    | .fuel => .fuel
end

/-- `to_string` / `to_pretty_string` on JSONB input: any internal error yields the text `null` -/
def toStringDoc (fmt : Nat → Bytes) (pretty : Bool) (value : Bytes) : Res Bytes :=
  match containerToString fmt (2 * value.length + 8) value 0 pretty 0 with
  | .ok t => .ok t
  | .err _ => .ok (lit "null")
  | .panic s => .panic s
  | .fuel => .fuel

end Jsonb.Fn
