/-
The JSON-text branches of functions.rs: every public function sniffs its document argument(s)
with `is_jsonb` (first byte exactly 0x20 / 0x40 / 0x80) and otherwise parses the text.  The
branch structure of each function is kept exactly (which argument is sniffed, in which order,
what happens on a parse error), because that is where text/JSONB disagreements come from.
`T.*` = the whole public function (dispatch + both branches).  Tree-side helpers mirror the
`Value` methods and the private `*_value*` functions of functions.rs.
-/
import JsonbModel.JsonParser
import JsonbModel.Functions.Access
import JsonbModel.Functions.Edit
import JsonbModel.Functions.Order
import JsonbModel.Functions.Serde
import JsonbModel.Functions.ToString
import JsonbModel.Selector
import JsonbModel.Spec.Edit
import JsonbModel.Spec.Order

namespace Jsonb.T
open JV

/-- `Value::to_vec` of a parsed value; the parser only produces values inside the field widths
for inputs below 2^28 bytes, so the patching encoder cannot fail there -/
def enc (v : JV) : Res Bytes := toVec v

/-- text argument → its JSONB encoding (`parse_value(..)?.to_vec()`) -/
def textToJsonb (t : Bytes) : Res Bytes :=
  match parseValue t with
  | .ok v => enc v
  | .err e => .err e
  | .panic s => .panic s
  | .fuel => .fuel

/-- `array_length` -/
def arrayLength (value : Bytes) : Res (Option Nat) :=
  if !isJsonb value then
    match parseValue value with
    | .ok (arr vs) => .ok (some vs.length)
    | .ok _ => .ok none
    | .err _ => .ok none
    | .panic s => .panic s
    | .fuel => .fuel
  else Fn.arrayLength value

/-- `get_by_index` -/
def getByIndex (value : Bytes) (i : Nat) : Res (Option Bytes) :=
  if !isJsonb value then
    match parseValue value with
    | .ok (arr vs) => (match vs[i]? with
                       | some v => (enc v).map some
                       | none => .ok none)
    | .ok _ => .ok none
    | .err _ => .ok none
    | .panic s => .panic s
    | .fuel => .fuel
  else Fn.getByIndex value i

/-- `Value::get_by_name_ignore_case` / `obj.get(name)` -/
def treeGetByName (v : JV) (name : Bytes) (ic : Bool) : Option JV :=
  match v with
  | obj kvs =>
    (match Spec.lookup name kvs with
     | some x => some x
     | none => if ic then Spec.lookupIgnoreCase name kvs else none)
  | _ => none

/-- `get_by_name` -/
def getByName (value name : Bytes) (ic : Bool) : Res (Option Bytes) :=
  if !isJsonb value then
    match parseValue value with
    | .ok v => (match treeGetByName v name ic with
                | some x => (enc x).map some
                | none => .ok none)
    | .err _ => .ok none
    | .panic s => .panic s
    | .fuel => .fuel
  else Fn.getByName value name ic

/-- text branch of `get_by_keypath` (the loop over `current_val`) -/
def treeGetByKeypath : JV → List KeyPath → Option JV
  | v, [] => some v
  | arr vs, .index i :: ps =>
    let n : Int := vs.length
    if i > n ∨ n + i < 0 then none
    else match vs[(if i ≥ 0 then i else n + i).toNat]? with
      | some v => treeGetByKeypath v ps
      | none => none
  | obj kvs, .name nm :: ps => (match Spec.lookup nm kvs with | some v => treeGetByKeypath v ps | none => none)
  | obj kvs, .quoted nm :: ps => (match Spec.lookup nm kvs with | some v => treeGetByKeypath v ps | none => none)
  | _, _ :: _ => none

def getByKeypath (value : Bytes) (path : List KeyPath) : Res (Option Bytes) :=
  if !isJsonb value then
    match parseValue value with
    | .ok v => (match treeGetByKeypath v path with
                | some x => (enc x).map some
                | none => .ok none)
    | .err _ => .ok none
    | .panic s => .panic s
    | .fuel => .fuel
  else Fn.getByKeypath value path

/-- `object_keys` -/
def objectKeys (value : Bytes) : Res (Option Bytes) :=
  if !isJsonb value then
    match parseValue value with
    | .ok (obj kvs) => (enc (arr (kvs.map (fun kv => str kv.1)))).map some
    | .ok _ => .ok none
    | .err _ => .ok none
    | .panic s => .panic s
    | .fuel => .fuel
  else Fn.objectKeys value

/-- `type_of` (after the `fix:` commit the text is parsed) -/
def typeOf (value : Bytes) : Res String :=
  if !isJsonb value then (parseValue value).map Spec.typeOf else Fn.typeOf value

/-- `as_null`, `as_bool`, `as_number`, `as_str`, `is_array`, `is_object` -/
def asNull (value : Bytes) : Res (Option Unit) :=
  if !isJsonb value then
    match parseValue value with
    | .ok v => .ok (Spec.asNull v)
    | .err _ => .ok none
    | .panic s => .panic s
    | .fuel => .fuel
  else Fn.asNull value
def asBool (value : Bytes) : Res (Option Bool) :=
  if !isJsonb value then
    match parseValue value with
    | .ok v => .ok (Spec.asBool v)
    | .err _ => .ok none
    | .panic s => .panic s
    | .fuel => .fuel
  else Fn.asBool value
def asNumber (value : Bytes) : Res (Option Num) :=
  if !isJsonb value then
    match parseValue value with
    | .ok v => .ok (Spec.asNumber v)
    | .err _ => .ok none
    | .panic s => .panic s
    | .fuel => .fuel
  else Fn.asNumber value
def asStr (value : Bytes) : Res (Option Bytes) :=
  if !isJsonb value then
    match parseValue value with
    | .ok v => .ok (Spec.asStr v)
    | .err _ => .ok none
    | .panic s => .panic s
    | .fuel => .fuel
  else Fn.asStr value

/-- `exists_value_key` -/
def existsAllKeys (value : Bytes) (keys : List Bytes) : Res Bool :=
  if !isJsonb value then
    match parseValue value with
    | .ok v => .ok (Spec.existsAllKeys v keys)
    | .err _ => .ok false
    | .panic s => .panic s
    | .fuel => .fuel
  else Fn.existsAllKeys value keys

/-- `from_slice`: binary decode, on ANY error parse as text -/
def fromSlice (buf : Bytes) : Res JV :=
  match parseJsonb buf with
  | .ok v => .ok v
  | .err _ => parseValue buf
  | .panic s => .panic s
  | .fuel => .fuel

/-- `contains`: if either side is text BOTH go through `from_slice` and the tree function -/
def contains (left right : Bytes) : Res Bool :=
  if !isJsonb left || !isJsonb right then
    match fromSlice left, fromSlice right with
    | .ok l, .ok r => .ok (Spec.contains l r)
    | .panic s, _ => .panic s
    | _, .panic s => .panic s
    | _, _ => .ok false
  else Fn.contains left right

/-- `compare` with its three text cases -/
def compare (left right : Bytes) : Res Ordering :=
  if !isJsonb left && !isJsonb right then
    match parseValue left, parseValue right with
    | .ok l, .ok r => (match enc l, enc r with
                       | .ok lb, .ok rb => Fn.compareDocs lb rb
                       | .panic s, _ => .panic s
                       | _, .panic s => .panic s
                       | _, _ => .err "enc")
    | .ok _, .err _ => .ok .gt
    | .err _, .ok _ => .ok .lt
    | .err _, .err _ => .ok (lexCmp left right)
    | .panic s, _ => .panic s
    | _, .panic s => .panic s
    | _, _ => .fuel
  else if !isJsonb left then
    match parseValue left with
    | .ok l => (enc l).bind (fun lb => Fn.compareDocs lb right)
    | .err _ => .ok .lt
    | .panic s => .panic s
    | .fuel => .fuel
  else if !isJsonb right then
    match parseValue right with
    | .ok r => (enc r).bind (fun rb => Fn.compareDocs left rb)
    | .err _ => .ok .gt
    | .panic s => .panic s
    | .fuel => .fuel
  else Fn.compareDocs left right

/-- `concat`: if either side is text both go through `from_slice`, `concat_values`, `write_to_vec` -/
def concat (left right buf : Bytes) : Res Bytes :=
  if !isJsonb left || !isJsonb right then
    match fromSlice left with
    | .ok l =>
      (match fromSlice right with
       | .ok r => writeToVec buf (Spec.concat l r)
       | .err e => .err e
       | .panic s => .panic s
       | .fuel => .fuel)
    | .err e => .err e
    | .panic s => .panic s
    | .fuel => .fuel
  else Fn.concat left right buf

/-- functions of the shape "parse, encode, run the JSONB function": one document argument -/
def viaJsonb1 {α} (f : Bytes → Res α) (value : Bytes) : Res α :=
  if !isJsonb value then (textToJsonb value).bind f else f value

/-- two document arguments, each converted on its own (after the `fix:` commit) -/
def viaJsonb2 {α} (f : Bytes → Bytes → Res α) (a b : Bytes) : Res α :=
  if !isJsonb a then
    (textToJsonb a).bind (fun a' => if !isJsonb b then (textToJsonb b).bind (f a') else f a' b)
  else if !isJsonb b then (textToJsonb b).bind (f a)
  else f a b

def arrayInsert (value : Bytes) (pos : Int) (new buf : Bytes) : Res Bytes :=
  viaJsonb2 (fun a b => Fn.arrayInsert a pos b buf) value new
def objectInsert (value key new : Bytes) (update : Bool) (buf : Bytes) : Res Bytes :=
  viaJsonb2 (fun a b => Fn.objectInsert a key b update buf) value new
def arrayDistinct (value buf : Bytes) : Res Bytes := viaJsonb1 (fun a => Fn.arrayDistinct a buf) value
def arrayIntersection (a b buf : Bytes) : Res Bytes := viaJsonb2 (fun x y => Fn.arraySetOp true x y buf) a b
def arrayExcept (a b buf : Bytes) : Res Bytes := viaJsonb2 (fun x y => Fn.arraySetOp false x y buf) a b
def arrayOverlap (a b : Bytes) : Res Bool := viaJsonb2 Fn.arrayOverlap a b
def objectDelete (value : Bytes) (keys : List Bytes) (buf : Bytes) : Res Bytes :=
  viaJsonb1 (fun a => Fn.objectFilter false a keys buf) value
def objectPick (value : Bytes) (keys : List Bytes) (buf : Bytes) : Res Bytes :=
  viaJsonb1 (fun a => Fn.objectFilter true a keys buf) value
def traverseCheckString (value : Bytes) (p : Bytes → Bool) : Res Bool :=
  if !isJsonb value then
    match parseValue value with
    | .ok v => (enc v).bind (fun b => Fn.traverseCheckString b p)
    | .err _ => .ok false
    | .panic s => .panic s
    | .fuel => .fuel
  else Fn.traverseCheckString value p

/-- tree-side editors: `delete_by_name`, `delete_by_index`, `strip_nulls`, `delete_by_keypath` -/
def deleteByName (value name buf : Bytes) : Res Bytes :=
  if !isJsonb value then
    match parseValue value with
    | .ok v => (match Spec.deleteByName v name with
                | some r => writeToVec buf r
                | none => .err "InvalidJsonType")
    | .err e => .err e
    | .panic s => .panic s
    | .fuel => .fuel
  else Fn.deleteByName value name buf

def deleteByIndex (value : Bytes) (index : Int) (buf : Bytes) : Res Bytes :=
  if !isJsonb value then
    match parseValue value with
    | .ok (arr vs) =>
      let len : Int := vs.length
      (match (if index < 0 then Fn.addI32 len index else .ok index) with
       | .ok idx => writeToVec buf (arr (if idx ≥ 0 ∧ idx < len then Fn.removeAt vs idx.toNat else vs))
       | .err e => .err e
       | .panic s => .panic s
       | .fuel => .fuel)
    | .ok _ => .err "InvalidJsonType"
    | .err e => .err e
    | .panic s => .panic s
    | .fuel => .fuel
  else Fn.deleteByIndex value index buf

def stripNulls (value buf : Bytes) : Res Bytes :=
  if !isJsonb value then
    match parseValue value with
    | .ok v => writeToVec buf (Spec.stripNulls v)
    | .err e => .err e
    | .panic s => .panic s
    | .fuel => .fuel
  else Fn.stripNulls value buf

/-- `to_serde_json` (after the `fix:` commit the text goes through `parse_value` + `to_vec`) -/
def toSerdeJson (value : Bytes) : Res SJ := viaJsonb1 Fn.toSerdeJson value

/-- `convert_to_comparable`: a parse error writes `[0, INVALID_LEVEL] ++ text` -/
def convertToComparable (value buf : Bytes) : Res Bytes :=
  if !isJsonb value then
    match parseValue value with
    | .ok v => (enc v).bind (fun b => Fn.convertToComparable b buf)
    | .err _ => .ok (buf ++ ([0, UInt8.ofNat C.INVALID_LEVEL] ++ value))
    | .panic s => .panic s
    | .fuel => .fuel
  else Fn.convertToComparable value buf

/-- `path_exists` / `path_match` / `get_by_path*` -/
def pathExists (value : Bytes) (jp : JsonPath) : Res Bool :=
  if !isJsonb value then
    match parseValue value with
    | .ok v => (enc v).bind (fun b => Sel.exists_ jp b (Sel.selFuel b jp))
    | .err _ => .ok false
    | .panic s => .panic s
    | .fuel => .fuel
  else Sel.exists_ jp value (Sel.selFuel value jp)

def getByPathMode (mode : Sel.Mode) (value : Bytes) (jp : JsonPath) (data : Bytes) : Res (Bytes × List Nat) :=
  if !isJsonb value then
    match parseValue value with
    | .ok v => (enc v).bind (fun b => Sel.select jp mode b data [] (Sel.selFuel b jp))
    | .err _ => .ok (data, [])
    | .panic s => .panic s
    | .fuel => .fuel
  else Sel.select jp mode value data [] (Sel.selFuel value jp)

/-- `parse_lazy_value(..).to_vec()` -/
def lazyToVec (buf : Bytes) : Res Bytes :=
  if !isJsonb buf then textToJsonb buf else .ok buf

end Jsonb.T
