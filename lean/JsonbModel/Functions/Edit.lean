/-
Implementation model of the editing and set functions of functions.rs (JSONB branch):
iterate the input(s), push raw entries into an `ArrayBuilder` / `ObjectBuilder`, `build_into`
the caller's buffer.  Every function takes the prior buffer content and returns the new one.
-/
import JsonbModel.Walk
import JsonbModel.Builder
import JsonbModel.KeyPath

namespace Jsonb.Fn

def rawOf (p : JE × Bytes) : BEntry := .raw p.1.ty p.1.len p.2

/-- `JEntry::make_container_jentry(value.len())` + the whole value -/
def containerEntry (value : Bytes) : BEntry := .raw C.CONTAINER_TAG (value.length % 4294967296) value

/-- `JEntry::decode_jentry(read_u32(value, 4)?)` + `&value[8..]` -/
def scalarEntry (value : Bytes) : Res BEntry :=
  match readU32At value 4 with
  | none => .err "InvalidEOF"
  | some w =>
    match sliceFrom value 8 with
    | .ok d => .ok (.raw (jeType w) (jeLen w) d)
    | .err e => .err e
    | .panic s => .panic s
    | .fuel => .fuel

/-- a whole document as one array element (object → container entry, otherwise its scalar entry) -/
def docEntry (value : Bytes) (ty : Nat) : Res BEntry :=
  if ty = C.OBJECT_CONTAINER_TAG then .ok (containerEntry value) else scalarEntry value

/-- push a list of `(key, entry)` into an `ObjectBuilder` (BTreeMap insert, last wins) -/
def pushAll (m : List (Bytes × BEntry)) (es : List (Bytes × BEntry)) : List (Bytes × BEntry) :=
  es.foldl (fun m kv => bInsert kv.1 kv.2 m) m

def memberRaw (m : Bytes × JE × Bytes) : Bytes × BEntry := (m.1, .raw m.2.1.ty m.2.1.len m.2.2)

/-- `concat_jsonb` -/
def concat (left right buf : Bytes) : Res Bytes :=
  match readU32At left 0, readU32At right 0 with
  | some lh, some rh =>
    let lt := hdrType lh
    let rt := hdrType rh
    if lt = C.OBJECT_CONTAINER_TAG ∧ rt = C.OBJECT_CONTAINER_TAG then
      match iterObjEntries left lh, iterObjEntries right rh with
      | .ok ls, .ok rs => buildObjectInto buf (pushAll (pushAll [] (ls.map memberRaw)) (rs.map memberRaw))
      | .panic s, _ => .panic s
      | _, .panic s => .panic s
      | _, _ => .err "iter"
    else if lt = C.ARRAY_CONTAINER_TAG ∧ rt = C.ARRAY_CONTAINER_TAG then
      match iterArray left lh, iterArray right rh with
      | .ok ls, .ok rs => buildArrayInto buf (ls.map rawOf ++ rs.map rawOf)
      | .panic s, _ => .panic s
      | _, .panic s => .panic s
      | _, _ => .err "iter"
    else if rt = C.ARRAY_CONTAINER_TAG then
      match docEntry left lt, iterArray right rh with
      | .ok l, .ok rs => buildArrayInto buf (l :: rs.map rawOf)
      | .err e, _ => .err e
      | .panic s, _ => .panic s
      | _, .panic s => .panic s
      | _, _ => .err "iter"
    else if lt = C.ARRAY_CONTAINER_TAG then
      match iterArray left lh, docEntry right rt with
      | .ok ls, .ok r => buildArrayInto buf (ls.map rawOf ++ [r])
      | .panic s, _ => .panic s
      | _, .err e => .err e
      | _, .panic s => .panic s
      | _, _ => .err "iter"
    else
      match docEntry left lt, docEntry right rt with
      | .ok l, .ok r => buildArrayInto buf [l, r]
      | .err e, _ => .err e
      | .panic s, _ => .panic s
      | _, .err e => .err e
      | _, .panic s => .panic s
      | _, _ => .err "iter"
  | _, _ => .err "InvalidEOF"

/-- `delete_jsonb_by_name` -/
def deleteByName (value name buf : Bytes) : Res Bytes :=
  match readU32At value 0 with
  | none => .err "InvalidEOF"
  | some h =>
    if hdrType h = C.OBJECT_CONTAINER_TAG then
      match iterObjEntries value h with
      | .ok ms => buildObjectInto buf (pushAll [] ((ms.filter (fun m => m.1 != name)).map memberRaw))
      | .err e => .err e
      | .panic s => .panic s
      | .fuel => .fuel
    else if hdrType h = C.ARRAY_CONTAINER_TAG then
      match iterArray value h with
      | .ok items =>
        buildArrayInto buf ((items.filter (fun it => !(it.1.ty == C.STRING_TAG && it.2 == name))).map rawOf)
      | .err e => .err e
      | .panic s => .panic s
      | .fuel => .fuel
    else .err "InvalidJsonType"

/-- i32 arithmetic with overflow checks on: `a + b` panics outside the i32 range -/
def addI32 (a b : Int) : Res Int :=
  let r := a + b
  if -2147483648 ≤ r ∧ r ≤ 2147483647 then .ok r else .panic "attempt to add with overflow"

def removeAt {α} : List α → Nat → List α
  | [], _ => []
  | _ :: xs, 0 => xs
  | x :: xs, n+1 => x :: removeAt xs n

/-- `delete_jsonb_by_index(value, index: i32)` -/
def deleteByIndex (value : Bytes) (index : Int) (buf : Bytes) : Res Bytes :=
  match readU32At value 0 with
  | none => .err "InvalidEOF"
  | some h =>
    if hdrType h = C.ARRAY_CONTAINER_TAG then
      let len : Int := hdrLen h
      match (if index < 0 then addI32 len index else .ok index) with
      | .ok idx =>
        if idx < 0 ∨ idx ≥ len then .ok (buf ++ value)
        else
          match iterArray value h with
          | .ok items => buildArrayInto buf ((removeAt items idx.toNat).map rawOf)
          | .err e => .err e
          | .panic s => .panic s
          | .fuel => .fuel
      | .err e => .err e
      | .panic s => .panic s
      | .fuel => .fuel
    else .err "InvalidJsonType"

/-- `array_insert_jsonb(value, pos: i32, new_value)` -/
def arrayInsert (value : Bytes) (pos : Int) (newValue buf : Bytes) : Res Bytes :=
  match readU32At value 0 with
  | none => .err "InvalidEOF"
  | some h =>
    let isArr := hdrType h = C.ARRAY_CONTAINER_TAG
    let len : Int := if isArr then (hdrLen h : Int) else 1
    match (if pos < 0 then addI32 len pos else .ok pos) with
    | .ok idx0 =>
      let idx : Nat := if idx0 < 0 then 0 else if idx0 > len then len.toNat else idx0.toNat
      let itemsR : Res (List BEntry) :=
        if isArr then (iterArray value h).map (fun l => l.map rawOf)
        else if hdrType h = C.OBJECT_CONTAINER_TAG then .ok [containerEntry value]
        else (scalarEntry value).map (fun e => [e])
      match itemsR with
      | .ok items =>
        (match readU32At newValue 0 with
         | none => .err "InvalidEOF"
         | some nh =>
           let newR : Res BEntry :=
             if hdrType nh = C.ARRAY_CONTAINER_TAG ∨ hdrType nh = C.OBJECT_CONTAINER_TAG
             then .ok (containerEntry newValue) else scalarEntry newValue
           match newR with
           | .ok ne => buildArrayInto buf (items.take idx ++ ne :: items.drop idx)
           | .err e => .err e
           | .panic s => .panic s
           | .fuel => .fuel)
      | .err e => .err e
      | .panic s => .panic s
      | .fuel => .fuel
    | .err e => .err e
    | .panic s => .panic s
    | .fuel => .fuel

/-- operand of the set functions as a list of `(entry, payload)` identities -/
def setOperand (value : Bytes) : Res (List (JE × Bytes)) :=
  match readU32At value 0 with
  | none => .err "InvalidEOF"
  | some h =>
    if hdrType h = C.ARRAY_CONTAINER_TAG then iterArray value h
    else if hdrType h = C.OBJECT_CONTAINER_TAG then
      .ok [(⟨C.CONTAINER_TAG, value.length % 4294967296, C.CONTAINER_TAG ||| (value.length % 4294967296)⟩, value)]
    else
      match readU32At value 4 with
      | none => .err "InvalidEOF"
      | some w =>
        match sliceFrom value 8 with
        | .ok d => .ok [(JE.ofWord w, d)]
        | .err e => .err e
        | .panic s => .panic s
        | .fuel => .fuel

/-- identity of an element: `(JEntry { type_code, length }, bytes)` -/
def ident (p : JE × Bytes) : Nat × Nat × Bytes := (p.1.ty, p.1.len, p.2)

def distinctLoop : List (JE × Bytes) → List (Nat × Nat × Bytes) → List (JE × Bytes)
  | [], _ => []
  | x :: xs, seen => if seen.contains (ident x) then distinctLoop xs seen else x :: distinctLoop xs (ident x :: seen)

/-- `array_distinct_jsonb` (a BTreeSet of seen identities) -/
def arrayDistinct (value buf : Bytes) : Res Bytes :=
  match readU32At value 0 with
  | none => .err "InvalidEOF"
  | some h =>
    if hdrType h = C.ARRAY_CONTAINER_TAG then
      match iterArray value h with
      | .ok items => buildArrayInto buf ((distinctLoop items []).map rawOf)
      | .err e => .err e
      | .panic s => .panic s
      | .fuel => .fuel
    else
      match setOperand value with
      | .ok items => buildArrayInto buf (items.map rawOf)
      | .err e => .err e
      | .panic s => .panic s
      | .fuel => .fuel

/-- the count map (`BTreeMap<(JEntry, &[u8]), i32>`) as an association list -/
def countAdd (k : Nat × Nat × Bytes) : List ((Nat × Nat × Bytes) × Nat) → List ((Nat × Nat × Bytes) × Nat)
  | [] => [(k, 1)]
  | (k', c) :: m => if k' = k then (k', c + 1) :: m else (k', c) :: countAdd k m
def countGet (k : Nat × Nat × Bytes) : List ((Nat × Nat × Bytes) × Nat) → Option Nat
  | [] => none
  | (k', c) :: m => if k' = k then some c else countGet k m
def countDec (k : Nat × Nat × Bytes) : List ((Nat × Nat × Bytes) × Nat) → List ((Nat × Nat × Bytes) × Nat)
  | [] => []
  | (k', c) :: m => if k' = k then (k', c - 1) :: m else (k', c) :: countDec k m

/-- `keep = true`: intersection loop; `keep = false`: except loop -/
def interLoop (keep : Bool) : List (JE × Bytes) → List ((Nat × Nat × Bytes) × Nat) → List (JE × Bytes)
  | [], _ => []
  | x :: xs, m =>
    match countGet (ident x) m with
    | some c =>
      if c > 0 then
        (if keep then x :: interLoop keep xs (countDec (ident x) m) else interLoop keep xs (countDec (ident x) m))
      else (if keep then interLoop keep xs m else x :: interLoop keep xs m)
    | none => if keep then interLoop keep xs m else x :: interLoop keep xs m

/-- `array_intersection_jsonb` / `array_except_jsonb`.  For a non-array first operand the code
tests `contains_key` (not the count): same thing for a one-element list against counts ≥ 1. -/
def arraySetOp (keep : Bool) (v1 v2 buf : Bytes) : Res Bytes :=
  match readU32At v1 0, readU32At v2 0 with
  | some h1, some _ =>
    (match setOperand v2 with
     | .ok items2 =>
       let m := items2.foldl (fun m x => countAdd (ident x) m) []
       (match setOperand v1 with
        | .ok items1 =>
          if hdrType h1 = C.ARRAY_CONTAINER_TAG then buildArrayInto buf ((interLoop keep items1 m).map rawOf)
          else
            buildArrayInto buf ((items1.filter (fun x => (countGet (ident x) m).isSome == keep)).map rawOf)
        | .err e => .err e
        | .panic s => .panic s
        | .fuel => .fuel)
     | .err e => .err e
     | .panic s => .panic s
     | .fuel => .fuel)
  | _, _ => .err "InvalidEOF"

/-- `array_overlap_jsonb` -/
def arrayOverlap (v1 v2 : Bytes) : Res Bool :=
  match readU32At v1 0, readU32At v2 0 with
  | some _, some _ =>
    (match setOperand v2 with
     | .ok items2 =>
       (match setOperand v1 with
        | .ok items1 => .ok (items1.any (fun x => (items2.map ident).contains (ident x)))
        | .err e => .err e
        | .panic s => .panic s
        | .fuel => .fuel)
     | .err e => .err e
     | .panic s => .panic s
     | .fuel => .fuel)
  | _, _ => .err "InvalidEOF"

/-- first loop of `object_insert_jsonb`: `(idx, duplicate_key)` or the duplicate-key error -/
def insertPos (newKey : Bytes) (update : Bool) : List Bytes → Nat → Nat → Res (Nat × Bool)
  | [], _, idx => .ok (idx, false)
  | k :: ks, i, idx =>
    if newKey == k then (if !update then .err "ObjectDuplicateKey" else .ok (i, true))
    else if lexCmp newKey k == .gt then insertPos newKey update ks (i + 1) (i + 1)
    else .ok (idx, false)

/-- `object_insert_jsonb` -/
def objectInsert (value newKey newValue : Bytes) (update : Bool) (buf : Bytes) : Res Bytes :=
  match readU32At value 0 with
  | none => .err "InvalidEOF"
  | some h =>
    if hdrType h ≠ C.OBJECT_CONTAINER_TAG then .err "InvalidObject"
    else
      match iterObjKeys value h with
      | .ok keys =>
        (match insertPos newKey update keys 0 0 with
         | .ok (idx, dup) =>
           (match iterObjEntries value h with
            | .ok ms =>
              (match readU32At newValue 0 with
               | none => .err "InvalidEOF"
               | some nh =>
                 let newR : Res BEntry :=
                   if hdrType nh = C.ARRAY_CONTAINER_TAG ∨ hdrType nh = C.OBJECT_CONTAINER_TAG
                   then .ok (containerEntry newValue) else scalarEntry newValue
                 match newR with
                 | .ok ne =>
                   let rest := if dup then (ms.drop idx).drop 1 else ms.drop idx
                   buildObjectInto buf
                     (pushAll (bInsert newKey ne (pushAll [] ((ms.take idx).map memberRaw))) (rest.map memberRaw))
                 | .err e => .err e
                 | .panic s => .panic s
                 | .fuel => .fuel)
            | .err e => .err e
            | .panic s => .panic s
            | .fuel => .fuel)
         | .err e => .err e
         | .panic s => .panic s
         | .fuel => .fuel)
      | .err e => .err e
      | .panic s => .panic s
      | .fuel => .fuel

/-- `object_delete_jsonb` (`pick = false`) / `object_pick_jsonb` (`pick = true`) -/
def objectFilter (pick : Bool) (value : Bytes) (keys : List Bytes) (buf : Bytes) : Res Bytes :=
  match readU32At value 0 with
  | none => .err "InvalidEOF"
  | some h =>
    if hdrType h ≠ C.OBJECT_CONTAINER_TAG then .err "InvalidObject"
    else
      match iterObjEntries value h with
      | .ok ms => buildObjectInto buf (pushAll [] ((ms.filter (fun m => keys.contains m.1 == pick)).map memberRaw))
      | .err e => .err e
      | .panic s => .panic s
      | .fuel => .fuel

mutual
/-- `strip_nulls_array(header, value)` → the builder's entries -/
def stripArray : Nat → Nat → Bytes → Res (List BEntry)
  | 0, _, _ => .fuel
  | fuel+1, header, value =>
    match iterArray value header with
    | .ok items => stripItems fuel items
    | .err e => .err e
    | .panic s => .panic s
    | .fuel => .fuel
def stripItems : Nat → List (JE × Bytes) → Res (List BEntry)
  | 0, _ => .fuel
  | _, [] => .ok []
  | fuel+1, (je, item) :: rest =>
    let headR : Res BEntry :=
      if je.ty = C.CONTAINER_TAG then
        match readU32At item 0 with
        | none => .err "InvalidEOF"
        | some ih =>
          if hdrType ih = C.OBJECT_CONTAINER_TAG then (stripObject fuel ih item).map BEntry.obj
          else if hdrType ih = C.ARRAY_CONTAINER_TAG then (stripArray fuel ih item).map BEntry.arr
          else .panic "unreachable"
      else .ok (.raw je.ty je.len item)
    match headR with
    | .ok e => (stripItems fuel rest).map (e :: ·)
    | .err e => .err e
    | .panic s => .panic s
    | .fuel => .fuel
/-- `strip_nulls_object(header, value)` → the builder's map -/
def stripObject : Nat → Nat → Bytes → Res (List (Bytes × BEntry))
  | 0, _, _ => .fuel
  | fuel+1, header, value =>
    match iterObjEntries value header with
    | .ok ms => stripMembers fuel ms []
    | .err e => .err e
    | .panic s => .panic s
    | .fuel => .fuel
def stripMembers : Nat → List (Bytes × JE × Bytes) → List (Bytes × BEntry) → Res (List (Bytes × BEntry))
  | 0, _, _ => .fuel
  | _, [], acc => .ok acc
  | fuel+1, (key, je, item) :: rest, acc =>
    if je.ty = C.CONTAINER_TAG then
      match readU32At item 0 with
      | none => .err "InvalidEOF"
      | some ih =>
        if hdrType ih = C.OBJECT_CONTAINER_TAG then
          match stripObject fuel ih item with
          | .ok m => stripMembers fuel rest (bInsert key (.obj m) acc)
          | .err e => .err e
          | .panic s => .panic s
          | .fuel => .fuel
        else if hdrType ih = C.ARRAY_CONTAINER_TAG then
          match stripArray fuel ih item with
          | .ok es => stripMembers fuel rest (bInsert key (.arr es) acc)
          | .err e => .err e
          | .panic s => .panic s
          | .fuel => .fuel
        else .panic "unreachable"
    else if je.ty = C.NULL_TAG then stripMembers fuel rest acc
    else stripMembers fuel rest (bInsert key (.raw je.ty je.len item) acc)
end

/-- `strip_nulls_jsonb` -/
def stripNulls (value buf : Bytes) : Res Bytes :=
  match readU32At value 0 with
  | none => .err "InvalidEOF"
  | some h =>
    if hdrType h = C.OBJECT_CONTAINER_TAG then
      match stripObject (2 * value.length + 4) h value with
      | .ok m => buildObjectInto buf m
      | .err e => .err e
      | .panic s => .panic s
      | .fuel => .fuel
    else if hdrType h = C.ARRAY_CONTAINER_TAG then
      match stripArray (2 * value.length + 4) h value with
      | .ok es => buildArrayInto buf es
      | .err e => .err e
      | .panic s => .panic s
      | .fuel => .fuel
    else .ok (buf ++ value)

mutual
/-- `delete_jsonb_array_by_keypath`: `ok none` = "no change", `ok (some entries)` = builder.
Fuel is decremented on every call (recursion follows the key path and the entry lists). -/
def delArrKp : Nat → List KeyPath → Nat → Bytes → Res (Option (List BEntry))
  | 0, _, _, _ => .fuel
  | _+1, [], _, _ => .ok none
  | fuel+1, .index idx0 :: kp, header, value =>
    let len : Int := hdrLen header
    (match (if idx0 < 0 then addI32 len idx0 else .ok idx0) with
     | .ok idx =>
       if idx < 0 ∨ idx ≥ len then .ok none
       else
         match iterArray value header with
         | .ok items => delArrItems fuel kp items idx.toNat 0
         | .err e => .err e
         | .panic s => .panic s
         | .fuel => .fuel
     | .err e => .err e
     | .panic s => .panic s
     | .fuel => .fuel)
  | _+1, _ :: _, _, _ => .ok none
/-- the `for (i, entry) in iterate_array(..).enumerate()` loop; `kp` = remaining key path -/
def delArrItems : Nat → List KeyPath → List (JE × Bytes) → Nat → Nat → Res (Option (List BEntry))
  | 0, _, _, _, _ => .fuel
  | _+1, _, [], _, _ => .ok (some [])
  | fuel+1, kp, (je, item) :: rest, idx, i =>
    if i ≠ idx then
      match delArrItems fuel kp rest idx (i + 1) with
      | .ok (some es) => .ok (some (.raw je.ty je.len item :: es))
      | r => r
    else if kp.isEmpty then delArrItems fuel kp rest idx (i + 1)
    else if je.ty = C.CONTAINER_TAG then
      match readU32At item 0 with
      | none => .err "InvalidEOF"
      | some ih =>
        if hdrType ih = C.ARRAY_CONTAINER_TAG then
          match delArrKp fuel kp ih item with
          | .ok (some sub) =>
            -- the key path is consumed by the recursive call; later entries are never `idx`
            (match delArrItems fuel [] rest idx (i + 1) with
             | .ok (some es) => .ok (some (.arr sub :: es))
             | r => r)
          | .ok none => .ok none
          | .err e => .err e
          | .panic s => .panic s
          | .fuel => .fuel
        else if hdrType ih = C.OBJECT_CONTAINER_TAG then
          match delObjKp fuel kp ih item with
          | .ok (some sub) =>
            (match delArrItems fuel [] rest idx (i + 1) with
             | .ok (some es) => .ok (some (.obj sub :: es))
             | r => r)
          | .ok none => .ok none
          | .err e => .err e
          | .panic s => .panic s
          | .fuel => .fuel
        else .panic "unreachable"
    else .ok none
/-- `delete_jsonb_object_by_keypath` -/
def delObjKp : Nat → List KeyPath → Nat → Bytes → Res (Option (List (Bytes × BEntry)))
  | 0, _, _, _ => .fuel
  | _+1, [], _, _ => .ok none
  | _+1, .index _ :: _, _, _ => .ok none
  | fuel+1, .quoted name :: kp, header, value =>
    (match iterObjEntries value header with
     | .ok ms => delObjMembers fuel kp name ms []
     | .err e => .err e
     | .panic s => .panic s
     | .fuel => .fuel)
  | fuel+1, .name name :: kp, header, value =>
    (match iterObjEntries value header with
     | .ok ms => delObjMembers fuel kp name ms []
     | .err e => .err e
     | .panic s => .panic s
     | .fuel => .fuel)
def delObjMembers : Nat → List KeyPath → Bytes → List (Bytes × JE × Bytes) → List (Bytes × BEntry) →
    Res (Option (List (Bytes × BEntry)))
  | 0, _, _, _, _ => .fuel
  | _+1, _, _, [], acc => .ok (some acc)
  | fuel+1, kp, name, (key, je, item) :: rest, acc =>
    if key != name then delObjMembers fuel kp name rest (bInsert key (.raw je.ty je.len item) acc)
    else if kp.isEmpty then delObjMembers fuel kp name rest acc
    else if je.ty = C.CONTAINER_TAG then
      match readU32At item 0 with
      | none => .err "InvalidEOF"
      | some ih =>
        if hdrType ih = C.ARRAY_CONTAINER_TAG then
          match delArrKp fuel kp ih item with
          | .ok (some sub) => delObjMembers fuel [] name rest (bInsert key (.arr sub) acc)
          | .ok none => .ok none
          | .err e => .err e
          | .panic s => .panic s
          | .fuel => .fuel
        else if hdrType ih = C.OBJECT_CONTAINER_TAG then
          match delObjKp fuel kp ih item with
          | .ok (some sub) => delObjMembers fuel [] name rest (bInsert key (.obj sub) acc)
          | .ok none => .ok none
          | .err e => .err e
          | .panic s => .panic s
          | .fuel => .fuel
        else .panic "unreachable"
    else .ok none
end

/-- `delete_by_keypath_jsonb` -/
def deleteByKeypath (value : Bytes) (kp : List KeyPath) (buf : Bytes) : Res Bytes :=
  match readU32At value 0 with
  | none => .err "InvalidEOF"
  | some h =>
    if hdrType h = C.ARRAY_CONTAINER_TAG then
      match delArrKp (value.length + 2 * kp.length + 8) kp h value with
      | .ok (some es) => buildArrayInto buf es
      | .ok none => .ok (buf ++ value)
      | .err e => .err e
      | .panic s => .panic s
      | .fuel => .fuel
    else if hdrType h = C.OBJECT_CONTAINER_TAG then
      match delObjKp (value.length + 2 * kp.length + 8) kp h value with
      | .ok (some m) => buildObjectInto buf m
      | .ok none => .ok (buf ++ value)
      | .err e => .err e
      | .panic s => .panic s
      | .fuel => .fuel
    else .err "InvalidJsonType"

/-- one item of `build_array` / `build_object`: entry word bytes and data of a document -/
def partOf (value : Bytes) : Res (Bytes × Bytes) :=
  match readU32At value 0 with
  | none => .err "InvalidEOF"
  | some h =>
    if hdrType h = C.SCALAR_CONTAINER_TAG then
      match slice value 4 8, sliceFrom value 8 with
      | .ok w, .ok d => .ok (w, d)
      | .panic s, _ => .panic s
      | _, .panic s => .panic s
      | _, _ => .err "slice"
    else if hdrType h = C.ARRAY_CONTAINER_TAG ∨ hdrType h = C.OBJECT_CONTAINER_TAG then
      .ok (u32be (C.CONTAINER_TAG ||| (value.length % 4294967296)), value)
    else .err "InvalidJsonbHeader"

def partsOf : List Bytes → Res (Bytes × Bytes)
  | [] => .ok ([], [])
  | v :: vs =>
    match partOf v with
    | .ok (w, d) => (partsOf vs).map (fun (ws, ds) => (w ++ ws, d ++ ds))
    | .err e => .err e
    | .panic s => .panic s
    | .fuel => .fuel

/-- `build_array(items, buf)` -/
def buildArray (items : List Bytes) (buf : Bytes) : Res Bytes :=
  match partsOf items with
  | .ok (ws, ds) => .ok (buf ++ (u32be (C.ARRAY_CONTAINER_TAG ||| (items.length % 4294967296)) ++ (ws ++ ds)))
  | .err e => .err e
  | .panic s => .panic s
  | .fuel => .fuel

/-- generic sorted insert for the `BTreeMap<String, &[u8]>` of `build_object` -/
def insertDoc (k : Bytes) (v : Bytes) : List (Bytes × Bytes) → List (Bytes × Bytes)
  | [] => [(k, v)]
  | (k', v') :: rest =>
    match lexCmp k k' with
    | .lt => (k, v) :: (k', v') :: rest
    | .eq => (k, v) :: rest
    | .gt => (k', v') :: insertDoc k v rest

/-- `build_object(items, buf)` (after the `fix:` commit: keys sorted, last wins) -/
def buildObject (items : List (Bytes × Bytes)) (buf : Bytes) : Res Bytes :=
  let m := items.foldl (fun m kv => insertDoc kv.1 kv.2 m) []
  match partsOf (m.map (·.2)) with
  | .ok (ws, ds) =>
    let kws := (m.map (fun kv => u32be (C.STRING_TAG ||| (kv.1.length % 4294967296)))).flatten
    let kbs := (m.map (·.1)).flatten
    .ok (buf ++ (u32be (C.OBJECT_CONTAINER_TAG ||| (m.length % 4294967296)) ++ (kws ++ (ws ++ (kbs ++ ds)))))
  | .err e => .err e
  | .panic s => .panic s
  | .fuel => .fuel

end Jsonb.Fn
