/-
serde_json bridge: a mirror `SJ` of `serde_json::Value` (with `Number` = PosInt | NegInt | Float
and the insertion-ordered `Map` of the `preserve_order` feature), the byte-level model of
`to_serde_json` / `to_serde_json_object`, and the tree conversions of from.rs.
-/
import JsonbModel.Walk
import JsonbModel.Value

namespace Jsonb

inductive SJ where
  | null
  | bool (b : Bool)
  | pos (n : Nat)        -- Number::PosInt(u64)
  | neg (i : Int)        -- Number::NegInt(i64), always negative
  | float (bits : Nat)   -- Number::Float(f64), always finite
  | str (s : Bytes)
  | arr (vs : List SJ)
  | obj (kvs : List (Bytes × SJ))   -- insertion order, unique keys
  deriving Repr

namespace SJ
/-- `Map::insert` of the insertion-ordered map: replace in place, else append -/
def insert (k : Bytes) (v : SJ) : List (Bytes × SJ) → List (Bytes × SJ)
  | [] => [(k, v)]
  | (k', v') :: rest => if k' == k then (k', v) :: rest else (k', v') :: insert k v rest
end SJ

namespace Fn

/-- `serde_json::Number::from(i64)` -/
def sjOfInt (i : Int) : SJ := if i ≥ 0 then .pos i.toNat else .neg i

/-- number arm of `scalar_to_serde_json`: `from_f64` refuses non-finite floats -/
def sjOfNum : Num → Res SJ
  | .int i => .ok (sjOfInt i)
  | .uint n => .ok (.pos n)
  | .float b => if F64.isFinite b then .ok (.float b) else .err "InvalidJson"

mutual
/-- `containter_to_serde_json(value)` -/
def toSerde : Nat → Bytes → Res SJ
  | 0, _ => .fuel
  | fuel+1, value =>
    let h := (readU32At value 0).getD 0
    if hdrType h = C.OBJECT_CONTAINER_TAG then
      match iterObjEntries value h with
      | .ok ms => (serdeMembers fuel ms []).map SJ.obj
      | .err e => .err e
      | .panic s => .panic s
      | .fuel => .fuel
    else if hdrType h = C.ARRAY_CONTAINER_TAG then
      match iterArray value h with
      | .ok items => (serdeItems fuel items).map SJ.arr
      | .err e => .err e
      | .panic s => .panic s
      | .fuel => .fuel
    else if hdrType h = C.SCALAR_CONTAINER_TAG then
      match readU32At value 4 with
      | none => .err "InvalidJsonb"
      | some w =>
        match sliceFrom value 8 with
        | .ok rest => serdeScalar fuel (JE.ofWord w) rest
        | .err e => .err e
        | .panic s => .panic s
        | .fuel => .fuel
    else .err "InvalidJsonb"
/-- `scalar_to_serde_json(jentry, value)` (`value` may extend beyond the payload) -/
def serdeScalar : Nat → JE → Bytes → Res SJ
  | 0, _, _ => .fuel
  | fuel+1, je, value =>
    if je.ty = C.NULL_TAG then .ok .null
    else if je.ty = C.TRUE_TAG then .ok (.bool true)
    else if je.ty = C.FALSE_TAG then .ok (.bool false)
    else if je.ty = C.NUMBER_TAG then
      match slice value 0 je.len with
      | .ok p => (match Num.dec p with
                  | .ok n => sjOfNum n
                  | .err e => .err e
                  | .panic s => .panic s
                  | .fuel => .fuel)
      | .err e => .err e
      | .panic s => .panic s
      | .fuel => .fuel
    else if je.ty = C.STRING_TAG then (slice value 0 je.len).map SJ.str
    else if je.ty = C.CONTAINER_TAG then toSerde fuel value
    else .err "InvalidJsonb"
def serdeItems : Nat → List (JE × Bytes) → Res (List SJ)
  | 0, _ => .fuel
  | _+1, [] => .ok []
  | fuel+1, (je, item) :: rest =>
    match serdeScalar fuel je item with
    | .ok x => (serdeItems fuel rest).map (x :: ·)
    | .err e => .err e
    | .panic s => .panic s
    | .fuel => .fuel
def serdeMembers : Nat → List (Bytes × JE × Bytes) → List (Bytes × SJ) → Res (List (Bytes × SJ))
  | 0, _, _ => .fuel
  | _+1, [], acc => .ok acc
  | fuel+1, (k, je, item) :: rest, acc =>
    match serdeScalar fuel je item with
    | .ok x => serdeMembers fuel rest (SJ.insert k x acc)
    | .err e => .err e
    | .panic s => .panic s
    | .fuel => .fuel
end

/-- `to_serde_json(value)` on JSONB input -/
def toSerdeJson (value : Bytes) : Res SJ := toSerde (2 * value.length + 8) value

/-- `to_serde_json_object(value)` on JSONB input -/
def toSerdeJsonObject (value : Bytes) : Res (Option SJ) :=
  let h := (readU32At value 0).getD 0
  if hdrType h = C.OBJECT_CONTAINER_TAG then (toSerdeJson value).map some
  else if hdrType h = C.ARRAY_CONTAINER_TAG ∨ hdrType h = C.SCALAR_CONTAINER_TAG then .ok none
  else .err "InvalidJsonb"

end Fn

namespace Spec
open JV

mutual
/-- `impl From<Value> for serde_json::Value` (`from_f64(v).unwrap()` panics on non-finite floats) -/
def toSJ : JV → Res SJ
  | .null => .ok .null
  | .bool b => .ok (.bool b)
  | .num (.int i) => .ok (Fn.sjOfInt i)
  | .num (.uint n) => .ok (.pos n)
  | .num (.float b) => if F64.isFinite b then .ok (.float b) else .panic "JsonNumber::from_f64(v).unwrap()"
  | .str s => .ok (.str s)
  | .arr vs => (toSJL vs).map SJ.arr
  | .obj kvs => (toSJK kvs []).map SJ.obj
def toSJL : List JV → Res (List SJ)
  | [] => .ok []
  | v :: vs =>
    match toSJ v with
    | .ok x => (toSJL vs).map (x :: ·)
    | .err e => .err e
    | .panic s => .panic s
    | .fuel => .fuel
def toSJK : List (Bytes × JV) → List (Bytes × SJ) → Res (List (Bytes × SJ))
  | [], acc => .ok acc
  | (k, v) :: kvs, acc =>
    match toSJ v with
    | .ok x => toSJK kvs (SJ.insert k x acc)
    | .err e => .err e
    | .panic s => .panic s
    | .fuel => .fuel
end

mutual
/-- `impl From<&serde_json::Value> for Value`: u64 first, then i64, else f64; objects into a BTreeMap -/
def fromSJ : SJ → JV
  | .null => .null
  | .bool b => .bool b
  | .pos n => .num (.uint n)
  | .neg i => .num (.int i)
  | .float b => .num (.float b)
  | .str s => .str s
  | .arr vs => .arr (fromSJL vs)
  | .obj kvs => .obj (mkObj (fromSJK kvs))
def fromSJL : List SJ → List JV
  | [] => []
  | v :: vs => fromSJ v :: fromSJL vs
def fromSJK : List (Bytes × SJ) → List (Bytes × JV)
  | [] => []
  | (k, v) :: kvs => (k, fromSJ v) :: fromSJK kvs
end

end Spec
end Jsonb
