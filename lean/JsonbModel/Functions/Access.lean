/-
Implementation model of the read-only accessors of functions.rs (JSONB branch; the JSON-text
branch is added in Functions/Text.lean on top of the parser model).  Each definition follows
the Rust function statement by statement; `none` = `None`, `.err` = `Err(_)`.
-/
import JsonbModel.Walk
import JsonbModel.Ser
import JsonbModel.KeyPath
import JsonbModel.F64Dec

namespace Jsonb.Fn

def arrayLength (value : Bytes) : Res (Option Nat) :=
  match readU32At value 0 with
  | none => .ok none
  | some h => if hdrType h = C.ARRAY_CONTAINER_TAG then .ok (some (hdrLen h)) else .ok none

def extractOpt (value : Bytes) : Option (JE × Nat) → Res (Option Bytes)
  | none => .ok none
  | some (je, vo) =>
    match extractByJentry je vo value with
    | .ok b => .ok (some b)
    | .err e => .err e
    | .panic s => .panic s
    | .fuel => .fuel

def getByIndex (value : Bytes) (index : Nat) : Res (Option Bytes) :=
  match readU32At value 0 with
  | none => .ok none
  | some h =>
    if hdrType h = C.ARRAY_CONTAINER_TAG then extractOpt value (getJentryByIndex value 0 h index)
    else .ok none

def getByName (value name : Bytes) (ignoreCase : Bool) : Res (Option Bytes) :=
  match readU32At value 0 with
  | none => .ok none
  | some h =>
    if hdrType h = C.OBJECT_CONTAINER_TAG then
      match getJentryByName value 0 h name ignoreCase with
      | .ok r => extractOpt value r
      | .err e => .err e
      | .panic s => .panic s
      | .fuel => .fuel
    else .ok none

/-- the `for path in keypaths` loop of `get_by_keypath`; state = (curr_val_offset, curr_jentry) -/
def getByKeypathLoop (value : Bytes) : List KeyPath → Nat → Option JE → Res (Option (Nat × Option JE))
  | [], off, je => .ok (some (off, je))
  | p :: ps, off, je =>
    if (match je with | some j => j.ty != C.CONTAINER_TAG | none => false) then .ok none
    else
      match readU32At value off with
      | none => .ok none
      | some h =>
        let length : Int := hdrLen h
        match p with
        | .quoted nm | .name nm =>
          if hdrType h = C.OBJECT_CONTAINER_TAG then
            match getJentryByName value off h nm false with
            | .ok (some (j, vo)) => getByKeypathLoop value ps vo (some j)
            | .ok none => .ok none
            | .err e => .err e
            | .panic s => .panic s
            | .fuel => .fuel
          else .ok none
        | .index idx =>
          if hdrType h = C.ARRAY_CONTAINER_TAG then
            if idx > length ∨ length + idx < 0 then .ok none
            else
              let i : Nat := if idx ≥ 0 then idx.toNat else (length + idx).toNat
              match getJentryByIndex value off h i with
              | some (j, vo) => getByKeypathLoop value ps vo (some j)
              | none => .ok none
          else .ok none

def getByKeypath (value : Bytes) (path : List KeyPath) : Res (Option Bytes) :=
  match getByKeypathLoop value path 0 none with
  | .ok none => .ok none
  | .ok (some (off, je)) =>
    if off = 0 then .ok (some value)
    else match je with
      | none => .ok none
      | some j => extractOpt value (some (j, off))
  | .err e => .err e
  | .panic s => .panic s
  | .fuel => .fuel

/-- first loop of `object_keys`: copy the key entry words, collect key end offsets -/
def objectKeysWords (value : Bytes) : Nat → Nat → Nat → Option (Bytes × List Nat)
  | 0, _, _ => some ([], [])
  | n+1, jo, ko =>
    match readU32At value jo with
    | none => none
    | some w =>
      match objectKeysWords value n (jo + 4) (ko + jeLen w) with
      | none => none
      | some (ws, offs) => some (u32be w ++ ws, (ko + jeLen w) :: offs)

/-- second loop of `object_keys` -/
def objectKeysCopy (value : Bytes) : List Nat → Nat → Res Bytes
  | [], _ => .ok []
  | ko :: offs, prev =>
    if ko > prev then
      match slice value prev ko with
      | .ok s =>
        (match objectKeysCopy value offs ko with
         | .ok r => .ok (s ++ r)
         | .err e => .err e
         | .panic s => .panic s
         | .fuel => .fuel)
      | .err e => .err e
      | .panic s => .panic s
      | .fuel => .fuel
    else objectKeysCopy value offs ko

def objectKeys (value : Bytes) : Res (Option Bytes) :=
  match readU32At value 0 with
  | none => .ok none
  | some h =>
    if hdrType h = C.OBJECT_CONTAINER_TAG then
      let length := hdrLen h
      match objectKeysWords value length 4 (8 * length + 4) with
      | none => .ok none
      | some (ws, offs) =>
        match objectKeysCopy value offs (8 * length + 4) with
        | .ok ks => .ok (some (u32be (headerWord C.ARRAY_CONTAINER_TAG length) ++ (ws ++ ks)))
        | .err e => .err e
        | .panic s => .panic s
        | .fuel => .fuel
    else .ok none

def readWords (value : Bytes) : Nat → Nat → Option (List Nat)
  | 0, _ => some []
  | n+1, off =>
    match readU32At value off with
    | none => none
    | some w => (readWords value n (off + 4)).map (w :: ·)

def eachKeys (value : Bytes) : List Nat → Nat → Res (List Bytes × Nat)
  | [], off => .ok ([], off)
  | w :: ws, off =>
    match slice value off (off + jeLen w) with
    | .ok k =>
      (match eachKeys value ws (off + jeLen w) with
       | .ok (ks, o) => .ok (k :: ks, o)
       | .err e => .err e
       | .panic s => .panic s
       | .fuel => .fuel)
    | .err e => .err e
    | .panic s => .panic s
    | .fuel => .fuel

def eachVals (value : Bytes) : List Nat → Nat → Res (List Bytes)
  | [], _ => .ok []
  | w :: ws, off =>
    match extractByJentry (JE.ofWord w) off value with
    | .ok v =>
      (match eachVals value ws (off + jeLen w) with
       | .ok vs => .ok (v :: vs)
       | .err e => .err e
       | .panic s => .panic s
       | .fuel => .fuel)
    | .err e => .err e
    | .panic s => .panic s
    | .fuel => .fuel

def objectEach (value : Bytes) : Res (Option (List (Bytes × Bytes))) :=
  match readU32At value 0 with
  | none => .ok none
  | some h =>
    if hdrType h = C.OBJECT_CONTAINER_TAG then
      let length := hdrLen h
      match readWords value (length * 2) 4 with
      | none => .ok none
      | some ws =>
        match eachKeys value (ws.take length) (4 + length * 2 * 4) with
        | .ok (ks, off) =>
          (match eachVals value (ws.drop length) off with
           | .ok vs => .ok (some (ks.zip vs))
           | .err e => .err e
           | .panic s => .panic s
           | .fuel => .fuel)
        | .err e => .err e
        | .panic s => .panic s
        | .fuel => .fuel
    else .ok none

def arrayValuesLoop (value : Bytes) : Nat → Nat → Nat → Res (Option (List Bytes))
  | 0, _, _ => .ok (some [])
  | n+1, jo, vo =>
    match readU32At value jo with
    | none => .ok none
    | some w =>
      match extractByJentry (JE.ofWord w) vo value with
      | .ok item =>
        (match arrayValuesLoop value n (jo + 4) (vo + jeLen w) with
         | .ok (some r) => .ok (some (item :: r))
         | .ok none => .ok none
         | .err e => .err e
         | .panic s => .panic s
         | .fuel => .fuel)
      | .err e => .err e
      | .panic s => .panic s
      | .fuel => .fuel

def arrayValues (value : Bytes) : Res (Option (List Bytes)) :=
  match readU32At value 0 with
  | none => .ok none
  | some h =>
    if hdrType h = C.ARRAY_CONTAINER_TAG then arrayValuesLoop value (hdrLen h) 4 (4 * hdrLen h + 4)
    else .ok none

def typeOf (value : Bytes) : Res String :=
  match readU32At value 0 with
  | none => .err "InvalidEOF"
  | some h =>
    if hdrType h = C.SCALAR_CONTAINER_TAG then
      match readU32At value 4 with
      | none => .err "InvalidEOF"
      | some w =>
        let ty := jeType w
        if ty = C.NULL_TAG then .ok C.TYPE_NULL
        else if ty = C.TRUE_TAG ∨ ty = C.FALSE_TAG then .ok C.TYPE_BOOLEAN
        else if ty = C.NUMBER_TAG then .ok C.TYPE_NUMBER
        else if ty = C.STRING_TAG then .ok C.TYPE_STRING
        else .err "InvalidJsonbJEntry"
    else if hdrType h = C.ARRAY_CONTAINER_TAG then .ok C.TYPE_ARRAY
    else if hdrType h = C.OBJECT_CONTAINER_TAG then .ok C.TYPE_OBJECT
    else .err "InvalidJsonbHeader"

/-- the scalar entry word of a scalar document (`read_u32(value,0)`, SCALAR, `read_u32(value,4)`) -/
def scalarWord (value : Bytes) : Option Nat :=
  match readU32At value 0 with
  | none => none
  | some h => if hdrType h = C.SCALAR_CONTAINER_TAG then readU32At value 4 else none

/-- `as_null` compares the WHOLE entry word with NULL_TAG -/
def asNull (value : Bytes) : Res (Option Unit) :=
  match scalarWord value with
  | some w => if w = C.NULL_TAG then .ok (some ()) else .ok none
  | none => .ok none

def asBool (value : Bytes) : Res (Option Bool) :=
  match scalarWord value with
  | some w => if w = C.FALSE_TAG then .ok (some false) else if w = C.TRUE_TAG then .ok (some true) else .ok none
  | none => .ok none

def asNumber (value : Bytes) : Res (Option Num) :=
  match scalarWord value with
  | some w =>
    if jeType w = C.NUMBER_TAG then
      match slice value 8 (8 + jeLen w) with
      | .ok p => (match Num.dec p with
                  | .ok n => .ok (some n)
                  | _ => .ok none)
      | .err e => .err e
      | .panic s => .panic s
      | .fuel => .fuel
    else .ok none
  | none => .ok none

def asStr (value : Bytes) : Res (Option Bytes) :=
  match scalarWord value with
  | some w =>
    if jeType w = C.STRING_TAG then
      match slice value 8 (8 + jeLen w) with
      | .ok p => .ok (some p)
      | .err e => .err e
      | .panic s => .panic s
      | .fuel => .fuel
    else .ok none
  | none => .ok none

def isArray (value : Bytes) : Bool :=
  match readU32At value 0 with
  | some h => hdrType h = C.ARRAY_CONTAINER_TAG
  | none => hdrType 0 = C.ARRAY_CONTAINER_TAG
def isObject (value : Bytes) : Bool :=
  match readU32At value 0 with
  | some h => hdrType h = C.OBJECT_CONTAINER_TAG
  | none => hdrType 0 = C.OBJECT_CONTAINER_TAG

/-! Rust `str::parse` for the integer types and f64 (core::num) -/
def allDigits (bs : Bytes) : Bool := bs.all (fun b => 0x30 ≤ b && b ≤ 0x39)
def digitsVal (bs : Bytes) : Nat := bs.foldl (fun a b => a * 10 + (b.toNat - 48)) 0

def parseU64 (s : Bytes) : Option Nat :=
  let d := match s with | 0x2B :: r => r | _ => s
  if d.isEmpty || !allDigits d then none
  else if digitsVal d < 18446744073709551616 then some (digitsVal d) else none

def parseI64 (s : Bytes) : Option Int :=
  match s with
  | 0x2D :: d =>
    if d.isEmpty || !allDigits d then none
    else if digitsVal d ≤ 9223372036854775808 then some (-(digitsVal d : Int)) else none
  | _ =>
    let d := match s with | 0x2B :: r => r | _ => s
    if d.isEmpty || !allDigits d then none
    else if digitsVal d ≤ 9223372036854775807 then some (digitsVal d) else none

/-- `str::parse::<f64>` (dec2flt grammar): bits of the correctly rounded value -/
def parseF64 (s : Bytes) : Option Nat :=
  let (neg, r) := match s with
    | 0x2D :: r => (true, r)
    | 0x2B :: r => (false, r)
    | _ => (false, s)
  let lower := r.map lowerAscii
  if lower == "inf".toUTF8.toList || lower == "infinity".toUTF8.toList then
    some (F64.signBits neg + F64.posInf)
  else if lower == "nan".toUTF8.toList then some (F64.signBits neg + F64.canonNaN)
  else
    let ip := r.takeWhile (fun b => 0x30 ≤ b && b ≤ 0x39)
    let r1 := r.dropWhile (fun b => 0x30 ≤ b && b ≤ 0x39)
    let (fp, r2) := match r1 with
      | 0x2E :: t => (t.takeWhile (fun b => 0x30 ≤ b && b ≤ 0x39), t.dropWhile (fun b => 0x30 ≤ b && b ≤ 0x39))
      | _ => ([], r1)
    if ip.isEmpty && fp.isEmpty then none
    else
      let mant := digitsVal (ip ++ fp)
      match r2 with
      | [] => some (F64.ofDecimal neg mant (-(fp.length : Int)))
      | e :: t =>
        if e == 0x65 || e == 0x45 then
          let (eneg, ed) := match t with
            | 0x2D :: d => (true, d)
            | 0x2B :: d => (false, d)
            | _ => (false, t)
          if ed.isEmpty || !allDigits ed then none
          else
            let ev : Int := if eneg then -(digitsVal ed : Int) else digitsVal ed
            some (F64.ofDecimal neg mant (ev - fp.length))
        else none

def asI64 (value : Bytes) : Res (Option Int) := (asNumber value).map (fun o => o.bind Num.asI64)
def asU64 (value : Bytes) : Res (Option Nat) := (asNumber value).map (fun o => o.bind Num.asU64)

def lowerEq (s : Bytes) (lit : String) : Bool := s.map lowerAscii == lit.toUTF8.toList

/-- `to_bool` -/
def toBool (value : Bytes) : Res Bool :=
  match asBool value with
  | .ok (some b) => .ok b
  | .ok none =>
    (match asStr value with
     | .ok (some s) => if lowerEq s "true" then .ok true else if lowerEq s "false" then .ok false else .err "InvalidCast"
     | .ok none => .err "InvalidCast"
     | .err e => .err e
     | .panic s => .panic s
     | .fuel => .fuel)
  | .err e => .err e
  | .panic s => .panic s
  | .fuel => .fuel

def toI64 (value : Bytes) : Res Int :=
  match asI64 value with
  | .ok (some v) => .ok v
  | .ok none =>
    (match asBool value with
     | .ok (some b) => .ok (if b then 1 else 0)
     | .ok none =>
       (match asStr value with
        | .ok (some s) => (match parseI64 s with | some v => .ok v | none => .err "InvalidCast")
        | .ok none => .err "InvalidCast"
        | .err e => .err e
        | .panic s => .panic s
        | .fuel => .fuel)
     | .err e => .err e
     | .panic s => .panic s
     | .fuel => .fuel)
  | .err e => .err e
  | .panic s => .panic s
  | .fuel => .fuel

def toU64 (value : Bytes) : Res Nat :=
  match asU64 value with
  | .ok (some v) => .ok v
  | .ok none =>
    (match asBool value with
     | .ok (some b) => .ok (if b then 1 else 0)
     | .ok none =>
       (match asStr value with
        | .ok (some s) => (match parseU64 s with | some v => .ok v | none => .err "InvalidCast")
        | .ok none => .err "InvalidCast"
        | .err e => .err e
        | .panic s => .panic s
        | .fuel => .fuel)
     | .err e => .err e
     | .panic s => .panic s
     | .fuel => .fuel)
  | .err e => .err e
  | .panic s => .panic s
  | .fuel => .fuel

/-- `exists_jsonb_key` -/
def existsJsonbKey (value : Bytes) (header : Nat) (key : Bytes) : Res Bool :=
  if hdrType header = C.OBJECT_CONTAINER_TAG then
    (iterObjKeys value header).map (fun ks => ks.any (· == key))
  else if hdrType header = C.ARRAY_CONTAINER_TAG then
    (iterArray value header).map (fun items => items.any (fun (je, v) => je.ty == C.STRING_TAG && v == key))
  else .ok false

def existsAllKeys (value : Bytes) (keys : List Bytes) : Res Bool :=
  let header := (readU32At value 0).getD 0
  let rec go : List Bytes → Res Bool
    | [] => .ok true
    | k :: ks =>
      if validUtf8 k then
        match existsJsonbKey value header k with
        | .ok true => go ks
        | .ok false => .ok false
        | .err e => .err e
        | .panic s => .panic s
        | .fuel => .fuel
      else .ok false
  go keys

def existsAnyKeys (value : Bytes) (keys : List Bytes) : Res Bool :=
  let header := (readU32At value 0).getD 0
  let rec go : List Bytes → Res Bool
    | [] => .ok false
    | k :: ks =>
      if validUtf8 k then
        match existsJsonbKey value header k with
        | .ok true => .ok true
        | .ok false => go ks
        | .err e => .err e
        | .panic s => .panic s
        | .fuel => .fuel
      else go ks
  go keys

/-- inner `for _ in 0..size` loop of `traverse_check_string`: returns `some true` on a hit,
else the container offsets to enqueue -/
def traverseEntries (value : Bytes) (p : Bytes → Bool) : Nat → Nat → Nat → Res (Option (List Nat))
  | 0, _, _ => .ok (some [])
  | n+1, jo, vo =>
    match readU32At value jo with
    | none => .ok none          -- `return false`
    | some w =>
      if jeType w = C.CONTAINER_TAG then
        match traverseEntries value p n (jo + 4) (vo + jeLen w) with
        | .ok (some offs) => .ok (some (vo :: offs))
        | r => r
      else if jeType w = C.STRING_TAG then
        match slice value vo (vo + jeLen w) with
        | .ok s =>
          if p s then .err "found"      -- `return true` (encoded as a distinguished outcome)
          else traverseEntries value p n (jo + 4) (vo + jeLen w)
        | .err e => .err e
        | .panic s => .panic s
        | .fuel => .fuel
      else traverseEntries value p n (jo + 4) (vo + jeLen w)

/-- `traverse_check_string`: breadth-first over a queue of container offsets -/
def traverseLoop (value : Bytes) (p : Bytes → Bool) : Nat → List Nat → Res Bool
  | 0, _ => .fuel
  | _, [] => .ok false
  | fuel+1, off :: queue =>
    match readU32At value off with
    | none => .ok false
    | some h =>
      let length := hdrLen h
      let sizeR : Res Nat :=
        if hdrType h = C.SCALAR_CONTAINER_TAG then .ok 1
        else if hdrType h = C.ARRAY_CONTAINER_TAG then .ok length
        else if hdrType h = C.OBJECT_CONTAINER_TAG then .ok (length * 2)
        else .panic "unreachable: invalid jsonb value"
      match sizeR with
      | .ok size =>
        (match traverseEntries value p size (off + 4) (off + 4 + 4 * size) with
         | .ok (some offs) => traverseLoop value p fuel (queue ++ offs)
         | .ok none => .ok false
         | .err "found" => .ok true
         | .err e => .err e
         | .panic s => .panic s
         | .fuel => .fuel)
      | .err e => .err e
      | .panic s => .panic s
      | .fuel => .fuel

def traverseCheckString (value : Bytes) (p : Bytes → Bool) : Res Bool :=
  traverseLoop value p (value.length + 2) [0]

end Jsonb.Fn
