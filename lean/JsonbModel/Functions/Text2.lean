/-
The remaining public document functions of functions.rs as WHOLE functions (sniffing with
`is_jsonb`, the JSON-text branch as written, the JSONB branch `Fn.*`).  Continues
Functions/Text.lean; after this file every `pub fn` of functions.rs that sniffs a document
argument has a `T.*` model.

Line numbers refer to /repo/src/functions.rs.  Conventions as in Text.lean: `Res` carries the
model-only outcomes `panic` / `fuel`; a Rust function returning `bool` / `Option` is a `Res` here
because the parser model is a `Res`.
-/
import JsonbModel.Functions.Text

namespace Jsonb

/-! ### `Value` / `Number` helpers that were not needed so far -/

/-- what the codec does to a float on its way through JSONB: every NaN comes back as `f64::NAN` -/
def F64.canon (b : Nat) : Nat := if F64.isNaN b then F64.canonNaN else b

/-! ### `String::from_utf8_lossy` (core::str::lossy `Utf8Chunks`)

Each maximal invalid chunk — the lead byte plus the continuation bytes that were still
admissible — becomes one U+FFFD; decoding resumes at the first byte that was not admissible.
`safe_get` beyond the end yields 0, which is never admissible.  The case split follows
`validUtf8` (Unicode Table 3-7), which is the same table `Utf8Chunks::next` uses. -/

def utf8Replacement : Bytes := [0xEF, 0xBF, 0xBD]

def utf8Lossy : Bytes → Bytes
  | [] => []
  | b0 :: rest =>
    if b0 < 0x80 then b0 :: utf8Lossy rest
    else if 0xC2 ≤ b0 && b0 ≤ 0xDF then
      match rest with
      | b1 :: r => if isCont b1 then b0 :: b1 :: utf8Lossy r else utf8Replacement ++ utf8Lossy (b1 :: r)
      | [] => utf8Replacement
    else if b0 == 0xE0 then
      match rest with
      | b1 :: r1 =>
        if 0xA0 ≤ b1 && b1 ≤ 0xBF then
          match r1 with
          | b2 :: r2 => if isCont b2 then b0 :: b1 :: b2 :: utf8Lossy r2 else utf8Replacement ++ utf8Lossy (b2 :: r2)
          | [] => utf8Replacement
        else utf8Replacement ++ utf8Lossy (b1 :: r1)
      | [] => utf8Replacement
    else if (0xE1 ≤ b0 && b0 ≤ 0xEC) || b0 == 0xEE || b0 == 0xEF then
      match rest with
      | b1 :: r1 =>
        if isCont b1 then
          match r1 with
          | b2 :: r2 => if isCont b2 then b0 :: b1 :: b2 :: utf8Lossy r2 else utf8Replacement ++ utf8Lossy (b2 :: r2)
          | [] => utf8Replacement
        else utf8Replacement ++ utf8Lossy (b1 :: r1)
      | [] => utf8Replacement
    else if b0 == 0xED then
      match rest with
      | b1 :: r1 =>
        if 0x80 ≤ b1 && b1 ≤ 0x9F then
          match r1 with
          | b2 :: r2 => if isCont b2 then b0 :: b1 :: b2 :: utf8Lossy r2 else utf8Replacement ++ utf8Lossy (b2 :: r2)
          | [] => utf8Replacement
        else utf8Replacement ++ utf8Lossy (b1 :: r1)
      | [] => utf8Replacement
    else if b0 == 0xF0 then
      match rest with
      | b1 :: r1 =>
        if 0x90 ≤ b1 && b1 ≤ 0xBF then
          match r1 with
          | b2 :: r2 =>
            if isCont b2 then
              match r2 with
              | b3 :: r3 => if isCont b3 then b0 :: b1 :: b2 :: b3 :: utf8Lossy r3 else utf8Replacement ++ utf8Lossy (b3 :: r3)
              | [] => utf8Replacement
            else utf8Replacement ++ utf8Lossy (b2 :: r2)
          | [] => utf8Replacement
        else utf8Replacement ++ utf8Lossy (b1 :: r1)
      | [] => utf8Replacement
    else if 0xF1 ≤ b0 && b0 ≤ 0xF3 then
      match rest with
      | b1 :: r1 =>
        if isCont b1 then
          match r1 with
          | b2 :: r2 =>
            if isCont b2 then
              match r2 with
              | b3 :: r3 => if isCont b3 then b0 :: b1 :: b2 :: b3 :: utf8Lossy r3 else utf8Replacement ++ utf8Lossy (b3 :: r3)
              | [] => utf8Replacement
            else utf8Replacement ++ utf8Lossy (b2 :: r2)
          | [] => utf8Replacement
        else utf8Replacement ++ utf8Lossy (b1 :: r1)
      | [] => utf8Replacement
    else if b0 == 0xF4 then
      match rest with
      | b1 :: r1 =>
        if 0x80 ≤ b1 && b1 ≤ 0x8F then
          match r1 with
          | b2 :: r2 =>
            if isCont b2 then
              match r2 with
              | b3 :: r3 => if isCont b3 then b0 :: b1 :: b2 :: b3 :: utf8Lossy r3 else utf8Replacement ++ utf8Lossy (b3 :: r3)
              | [] => utf8Replacement
            else utf8Replacement ++ utf8Lossy (b2 :: r2)
          | [] => utf8Replacement
        else utf8Replacement ++ utf8Lossy (b1 :: r1)
      | [] => utf8Replacement
    else utf8Replacement ++ utf8Lossy rest
termination_by bs => bs.length
decreasing_by all_goals (simp only [List.length_cons]; omega)

namespace T
open JV

/-! ### JSONPath wrappers -/

/-- `path_match` (179-187): the text is parsed FIRST (`parse_value(value)?` — a parse error is
passed on, unlike `path_exists` which answers `false`), then `predicate_match` on `to_vec()` -/
def pathMatch (value : Bytes) (jp : JsonPath) : Res Bool :=
  if !isJsonb value then
    match parseValue value with
    | .ok v => (enc v).bind (fun b => Sel.predicateMatch jp b (Sel.selFuel b jp))
    | .err e => .err e
    | .panic s => .panic s
    | .fuel => .fuel
  else Sel.predicateMatch jp value (Sel.selFuel value jp)

/-- `get_by_path` (191-207), `get_by_path_first` (211-227), `get_by_path_array` (231-247): the
three bodies differ only in the `Mode` handed to `Selector::new`; `T.getByPathMode` of Text.lean
is that body with the mode as a parameter -/
def getByPath (value : Bytes) (jp : JsonPath) (data : Bytes) : Res (Bytes × List Nat) :=
  getByPathMode .mixed value jp data
def getByPathFirst (value : Bytes) (jp : JsonPath) (data : Bytes) : Res (Bytes × List Nat) :=
  getByPathMode .first value jp data
def getByPathArray (value : Bytes) (jp : JsonPath) (data : Bytes) : Res (Bytes × List Nat) :=
  getByPathMode .array value jp data

/-! ### keys, members, elements -/

/-- `exists_any_keys` (434-458).  Text branch: `for key in keys { if let Ok(key) = from_utf8(key)
{ if exists_value_key(&val, key) { return true } } }`, a parse error answers `false`.
`exists_value_key` (460-479) is literally `Spec.existsKey` (array: some element is that string;
object: `contains_key`), and the loop is literally `Spec.existsAnyKeys` (`List.any` over the keys
that are valid UTF-8) — reused, as `T.existsAllKeys` does. -/
def existsAnyKeys (value : Bytes) (keys : List Bytes) : Res Bool :=
  if !isJsonb value then
    match parseValue value with
    | .ok v => .ok (Spec.existsAnyKeys v keys)
    | .err _ => .ok false
    | .panic s => .panic s
    | .fuel => .fuel
  else Fn.existsAnyKeys value keys

/-- `for (k, v) in obj { result.push((k.as_bytes().to_vec(), v.to_vec())) }` (BTreeMap order =
list order) -/
def encMembers : List (Bytes × JV) → Res (List (Bytes × Bytes))
  | [] => .ok []
  | (k, v) :: kvs =>
    match enc v with
    | .ok b =>
      (match encMembers kvs with
       | .ok r => .ok ((k, b) :: r)
       | .err e => .err e
       | .panic s => .panic s
       | .fuel => .fuel)
    | .err e => .err e
    | .panic s => .panic s
    | .fuel => .fuel

/-- `vals.into_iter().map(|val| val.to_vec()).collect()` -/
def encList : List JV → Res (List Bytes)
  | [] => .ok []
  | v :: vs =>
    match enc v with
    | .ok b =>
      (match encList vs with
       | .ok r => .ok (b :: r)
       | .err e => .err e
       | .panic s => .panic s
       | .fuel => .fuel)
    | .err e => .err e
    | .panic s => .panic s
    | .fuel => .fuel

/-- `object_each` (796-848) -/
def objectEach (value : Bytes) : Res (Option (List (Bytes × Bytes))) :=
  if !isJsonb value then
    match parseValue value with
    | .ok (obj kvs) => (encMembers kvs).map some
    | .ok _ => .ok none
    | .err _ => .ok none
    | .panic s => .panic s
    | .fuel => .fuel
  else Fn.objectEach value

/-- `array_values` (851-885) -/
def arrayValues (value : Bytes) : Res (Option (List Bytes)) :=
  if !isJsonb value then
    match parseValue value with
    | .ok (arr vs) => (encList vs).map some
    | .ok _ => .ok none
    | .err _ => .ok none
    | .panic s => .panic s
    | .fuel => .fuel
  else Fn.arrayValues value

/-! ### type tests -/

/-- `is_array` (1431-1440): `Value::is_array` = `as_array().is_some()` (value.rs 123-132) =
`Spec.isArray`; a parse error answers `false` -/
def isArray (value : Bytes) : Res Bool :=
  if !isJsonb value then
    match parseValue value with
    | .ok v => .ok (Spec.isArray v)
    | .err _ => .ok false
    | .panic s => .panic s
    | .fuel => .fuel
  else .ok (Fn.isArray value)

/-- `is_object` (1443-1452): `Value::is_object` (value.rs 112-121) = `Spec.isObject` -/
def isObject (value : Bytes) : Res Bool :=
  if !isJsonb value then
    match parseValue value with
    | .ok v => .ok (Spec.isObject v)
    | .err _ => .ok false
    | .panic s => .panic s
    | .fuel => .fuel
  else .ok (Fn.isObject value)

/-- `is_null` (1191), `is_boolean` (1217), `is_number` (1258), `is_string` (1381):
`as_x(value).is_some()` of the WHOLE function `as_x` (which does the sniffing) -/
def isNull (value : Bytes) : Res Bool := (asNull value).map Option.isSome
def isBoolean (value : Bytes) : Res Bool := (asBool value).map Option.isSome
def isNumber (value : Bytes) : Res Bool := (asNumber value).map Option.isSome
def isString (value : Bytes) : Res Bool := (asStr value).map Option.isSome

/-! ### number views and casts

None of these sniffs on its own: they are compositions of the whole functions `as_number`,
`as_bool`, `as_str` (each of which sniffs and, on text, parses the text again). -/

/-- `as_i64` (1311-1316), `as_u64` (1324-1329), `as_f64` (1355-1360).  `Number::as_f64`
(number.rs 171-177, always `Some`: `*v as f64` rounds to nearest even) is `Num.asF64` of NumOrd.lean. -/
def asI64 (value : Bytes) : Res (Option Int) := (asNumber value).map (fun o => o.bind Num.asI64)
def asU64 (value : Bytes) : Res (Option Nat) := (asNumber value).map (fun o => o.bind Num.asU64)
def asF64 (value : Bytes) : Res (Option Nat) := (asNumber value).map (fun o => o.map Num.asF64)

/-- `is_i64` (1288), `is_u64` (1319), `is_f64` (1350) -/
def isI64 (value : Bytes) : Res Bool := (asI64 value).map Option.isSome
def isU64 (value : Bytes) : Res Bool := (asU64 value).map Option.isSome
def isF64 (value : Bytes) : Res Bool := (asF64 value).map Option.isSome

/-- `to_bool` (1244-1255) -/
def toBool (value : Bytes) : Res Bool :=
  match asBool value with
  | .ok (some b) => .ok b
  | .ok none =>
    (match asStr value with
     | .ok (some s) =>
       if Fn.lowerEq s "true" then .ok true else if Fn.lowerEq s "false" then .ok false else .err "InvalidCast"
     | .ok none => .err "InvalidCast"
     | .err e => .err e
     | .panic s => .panic s
     | .fuel => .fuel)
  | .err e => .err e
  | .panic s => .panic s
  | .fuel => .fuel

/-- the common tail of `to_i64` / `to_u64` / `to_f64`: `as_bool`, then `as_str` + `str::parse` -/
def castTail {α} (value : Bytes) (one zero : α) (parse : Bytes → Option α) : Res α :=
  match asBool value with
  | .ok (some b) => .ok (if b then one else zero)
  | .ok none =>
    (match asStr value with
     | .ok (some s) => (match parse s with | some v => .ok v | none => .err "InvalidCast")
     | .ok none => .err "InvalidCast"
     | .err e => .err e
     | .panic s => .panic s
     | .fuel => .fuel)
  | .err e => .err e
  | .panic s => .panic s
  | .fuel => .fuel

/-- `to_i64` (1293-1308) -/
def toI64 (value : Bytes) : Res Int :=
  match asI64 value with
  | .ok (some v) => .ok v
  | .ok none => castTail value 1 0 Fn.parseI64
  | .err e => .err e
  | .panic s => .panic s
  | .fuel => .fuel

/-- `to_u64` (1332-1347) -/
def toU64 (value : Bytes) : Res Nat :=
  match asU64 value with
  | .ok (some v) => .ok v
  | .ok none => castTail value 1 0 Fn.parseU64
  | .err e => .err e
  | .panic s => .panic s
  | .fuel => .fuel

/-- `to_f64` (1363-1378); `1_f64` = 0x3FF0000000000000, `0_f64` = 0; `str::parse::<f64>` =
`Fn.parseF64` -/
def toF64 (value : Bytes) : Res Nat :=
  match asF64 value with
  | .ok (some v) => .ok v
  | .ok none => castTail value 0x3FF0000000000000 0 Fn.parseF64
  | .err e => .err e
  | .panic s => .panic s
  | .fuel => .fuel

/-- `to_str` (1415-1428): the string itself, `true` / `false`, or `format!("{}", number)`
(`Display for Number` = `Fn.numToString`, float text supplied by the caller as in `to_string`) -/
def toStr (fmt : Nat → Bytes) (value : Bytes) : Res Bytes :=
  match asStr value with
  | .ok (some s) => .ok s
  | .ok none =>
    (match asBool value with
     | .ok (some b) => .ok (if b then Fn.lit "true" else Fn.lit "false")
     | .ok none =>
       (match asNumber value with
        | .ok (some n) => .ok (Fn.numToString fmt n)
        | .ok none => .err "InvalidCast"
        | .err e => .err e
        | .panic s => .panic s
        | .fuel => .fuel)
     | .err e => .err e
     | .panic s => .panic s
     | .fuel => .fuel)
  | .err e => .err e
  | .panic s => .panic s
  | .fuel => .fuel

/-! ### serde, rendering -/

/-- `to_serde_json_object` (1467-1476): `parse_value(value)?`, `to_vec()`, the JSONB function -/
def toSerdeJsonObject (value : Bytes) : Res (Option SJ) := viaJsonb1 Fn.toSerdeJsonObject value

/-- `to_string` (1572-1588) / `to_pretty_string` (1591-1607).  On text input NOTHING is parsed:
the empty input gives `null`, anything else is handed back as it is
(`String::from_utf8_lossy(value).to_string()`), also by the pretty variant. -/
def toStringFn (fmt : Nat → Bytes) (pretty : Bool) (value : Bytes) : Res Bytes :=
  if !isJsonb value then
    if value.isEmpty then .ok (Fn.lit "null") else .ok (utf8Lossy value)
  else Fn.toStringDoc fmt pretty value

/-! ### `delete_by_keypath` -/

mutual
/-- `delete_value_array_by_keypath` (2238-2258).  `arr.len() as i32` and `len + *idx` are exact
here: lengths the parser can produce are below 2^28, and `len + idx` with `idx < 0 ≤ len` cannot
leave the `i32` range.  The element is changed in place (`arr[idx] = …`). -/
def treeDelArr : List KeyPath → List JV → List JV
  | .index i :: kp, vs =>
    let len : Int := vs.length
    let idx := if i < 0 then len + i else i
    if idx < 0 ∨ idx ≥ len then vs
    else if kp.isEmpty then Fn.removeAt vs idx.toNat
    else match vs[idx.toNat]? with
      | some (arr a) => vs.set idx.toNat (arr (treeDelArr kp a))
      | some (obj o) => vs.set idx.toNat (obj (treeDelObj kp o))
      | _ => vs
  | _, vs => vs       -- the key path is empty or its head is not an index: nothing happens
/-- `delete_value_object_by_keypath` (2260-2275): `obj.remove(name)` / `obj.get_mut(name)` -/
def treeDelObj : List KeyPath → List (Bytes × JV) → List (Bytes × JV)
  | .name nm :: kp, kvs =>
    if kp.isEmpty then Spec.removeKey nm kvs
    else match Spec.lookup nm kvs with
      | some (arr a) => kvs.map (fun kv => if kv.1 == nm then (kv.1, arr (treeDelArr kp a)) else kv)
      | some (obj o) => kvs.map (fun kv => if kv.1 == nm then (kv.1, obj (treeDelObj kp o)) else kv)
      | _ => kvs
  | .quoted nm :: kp, kvs =>
    if kp.isEmpty then Spec.removeKey nm kvs
    else match Spec.lookup nm kvs with
      | some (arr a) => kvs.map (fun kv => if kv.1 == nm then (kv.1, arr (treeDelArr kp a)) else kv)
      | some (obj o) => kvs.map (fun kv => if kv.1 == nm then (kv.1, obj (treeDelObj kp o)) else kv)
      | _ => kvs
  | _, kvs => kvs
end

/-- `delete_by_keypath` (2219-2236) -/
def deleteByKeypath (value : Bytes) (kp : List KeyPath) (buf : Bytes) : Res Bytes :=
  if !isJsonb value then
    match parseValue value with
    | .ok (arr vs) => writeToVec buf (arr (treeDelArr kp vs))
    | .ok (obj kvs) => writeToVec buf (obj (treeDelObj kp kvs))
    | .ok _ => .err "InvalidJsonType"
    | .err e => .err e
    | .panic s => .panic s
    | .fuel => .fuel
  else Fn.deleteByKeypath value kp buf

end T
end Jsonb
