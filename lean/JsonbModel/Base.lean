/-
Base definitions shared by the spec layer and the implementation model:
byte strings, big-endian words, the three-way result type, bit-mask lemmas.
No Mathlib; core Lean only (so the driver links as a `lean_exe`).
-/
namespace Jsonb

abbrev Bytes := List UInt8

/-- Result of a modelled Rust function.  `err` = `Err(_)`/`None`, `panic` = any Rust
panic (unwrap, slice index, assert!, todo!, overflow check), `fuel` = the model's fuel ran
out (shown impossible by the `*_fuel` lemmas; never produced on real inputs). -/
inductive Res (α : Type) where
  | ok (a : α)
  | err (e : String)
  | panic (site : String)
  | fuel
  deriving Repr, DecidableEq

namespace Res
def bind {α β} (r : Res α) (f : α → Res β) : Res β :=
  match r with
  | ok a => f a
  | err e => err e
  | panic s => panic s
  | fuel => fuel
def map {α β} (f : α → β) (r : Res α) : Res β := r.bind (fun a => ok (f a))
def isPanic {α} : Res α → Bool
  | panic _ => true
  | _ => false
def isOk {α} : Res α → Bool
  | ok _ => true
  | _ => false
def toOption {α} : Res α → Option α
  | ok a => some a
  | _ => none
instance : Monad Res where
  pure := ok
  bind := bind
end Res

/-! ### Big-endian words -/

/-- `n` as `w` big-endian bytes (value taken modulo `256^w`), Rust `to_be_bytes`. -/
def beN : Nat → Nat → Bytes
  | 0, _ => []
  | w+1, n => UInt8.ofNat (n / 256 ^ w % 256) :: beN w n

/-- Big-endian value of a byte string, Rust `from_be_bytes`. -/
def ofBe (bs : Bytes) : Nat := bs.foldl (fun a b => a * 256 + b.toNat) 0

@[simp] theorem beN_length (w n : Nat) : (beN w n).length = w := by
  induction w with
  | zero => rfl
  | succ w ih => simp [beN, ih]

theorem ofBe_foldl (bs : Bytes) (a : Nat) :
    bs.foldl (fun a b => a * 256 + b.toNat) a = a * 256 ^ bs.length + ofBe bs := by
  induction bs generalizing a with
  | nil => simp [ofBe]
  | cons b bs ih =>
    simp only [List.foldl_cons, List.length_cons, ofBe]
    rw [ih, ih (0 * 256 + b.toNat)]
    simp only [Nat.pow_succ]
    grind

theorem ofBe_cons (b : UInt8) (bs : Bytes) : ofBe (b :: bs) = b.toNat * 256 ^ bs.length + ofBe bs := by
  simp only [ofBe, List.foldl_cons]
  have := ofBe_foldl bs (0 * 256 + b.toNat)
  simp only [ofBe] at this
  rw [this]; simp

theorem toNat_ofNat_mod (n : Nat) : (UInt8.ofNat (n % 256)).toNat = n % 256 := by
  simp [UInt8.toNat_ofNat']

theorem ofBe_beN (w n : Nat) : ofBe (beN w n) = n % 256 ^ w := by
  induction w with
  | zero => simp [beN, ofBe, Nat.mod_one]
  | succ w ih =>
    simp only [beN, ofBe_cons, beN_length, ih, toNat_ofNat_mod]
    have h1 : n % 256 ^ (w+1) = (n / 256 ^ w % 256) * 256 ^ w + n % 256 ^ w := by
      rw [Nat.pow_succ, Nat.mod_mul, Nat.add_comm, Nat.mul_comm]
    rw [h1]

theorem ofBe_lt (bs : Bytes) : ofBe bs < 256 ^ bs.length := by
  induction bs with
  | nil => simp [ofBe]
  | cons b bs ih =>
    rw [ofBe_cons, List.length_cons, Nat.pow_succ]
    have hb : b.toNat < 256 := b.toNat_lt
    have : b.toNat * 256 ^ bs.length + 256 ^ bs.length ≤ 256 ^ bs.length * 256 := by
      have : (b.toNat + 1) * 256 ^ bs.length ≤ 256 * 256 ^ bs.length :=
        Nat.mul_le_mul_right _ (by omega)
      rw [Nat.add_mul, Nat.one_mul] at this
      rw [Nat.mul_comm (256 ^ bs.length) 256]; exact this
    omega

theorem ofNat_toNat_u8 (b : UInt8) : UInt8.ofNat b.toNat = b := by
  simp

theorem beN_ofBe (bs : Bytes) : beN bs.length (ofBe bs) = bs := by
  induction bs with
  | nil => rfl
  | cons b bs ih =>
    simp only [List.length_cons, beN, ofBe_cons]
    have hlt := ofBe_lt bs
    have hpos : 0 < 256 ^ bs.length := Nat.pow_pos (by decide)
    have h1 : (b.toNat * 256 ^ bs.length + ofBe bs) / 256 ^ bs.length = b.toNat := by
      rw [Nat.mul_comm, Nat.mul_add_div hpos, Nat.div_eq_of_lt hlt]; simp
    have hb : b.toNat < 256 := b.toNat_lt
    rw [h1, Nat.mod_eq_of_lt hb, ofNat_toNat_u8]
    congr 1
    -- beN depends on n only through n % 256^w
    have key : ∀ w m k, beN w (k * 256 ^ w + m) = beN w m := by
      intro w
      induction w with
      | zero => intros; rfl
      | succ w ihw =>
        intro m k
        simp only [beN]
        have hp : 0 < 256 ^ w := Nat.pow_pos (by decide)
        have e0 : k * 256 ^ (w+1) + m = m + 256 ^ w * (256 * k) := by
          rw [Nat.pow_succ]; grind
        have e1 : (k * 256 ^ (w+1) + m) / 256 ^ w % 256 = m / 256 ^ w % 256 := by
          rw [e0, Nat.add_mul_div_left _ _ hp, Nat.add_mul_mod_self_left]
        rw [e1]
        congr 1
        have e2 : k * 256 ^ (w+1) + m = (k * 256) * 256 ^ w + m := by
          rw [Nat.pow_succ]; grind
        rw [e2]
        exact ihw m (k * 256)
    rw [key, ih]

/-- Read `w` bytes big-endian from the front; `none` if fewer are present. -/
def readBe (w : Nat) (bs : Bytes) : Option (Nat × Bytes) :=
  if w ≤ bs.length then some (ofBe (bs.take w), bs.drop w) else none

def u32be (n : Nat) : Bytes := beN 4 n

/-- `byteorder::ReadBytesExt::read_u32::<BigEndian>` on a slice cursor. -/
def readU32 (bs : Bytes) : Option (Nat × Bytes) := readBe 4 bs

theorem readBe_beN (w n : Nat) (rest : Bytes) (h : n < 256 ^ w) :
    readBe w (beN w n ++ rest) = some (n, rest) := by
  simp [readBe, ofBe_beN, Nat.mod_eq_of_lt h]

theorem readU32_u32be (n : Nat) (rest : Bytes) (h : n < 4294967296) :
    readU32 (u32be n ++ rest) = some (n, rest) := by
  unfold readU32 u32be; exact readBe_beN 4 n rest (by simpa using h)

@[simp] theorem u32be_length (n : Nat) : (u32be n).length = 4 := by simp [u32be]

/-- `read_u32(buf, idx)` of functions.rs / iterator.rs: `buf.get(idx..idx+4)`. -/
def readU32At (bs : Bytes) (idx : Nat) : Option Nat :=
  if idx + 4 ≤ bs.length then some (ofBe ((bs.drop idx).take 4)) else none

theorem readU32At_append (pre : Bytes) (n : Nat) (rest : Bytes) (h : n < 4294967296) :
    readU32At (pre ++ (u32be n ++ rest)) pre.length = some n := by
  simp [readU32At, u32be, ofBe_beN]
  omega

/-! ### Bit masks: `tag ||| n` packed words and their two fields -/

theorem and_hi (x k j : Nat) : x &&& ((2 ^ j - 1) * 2 ^ k) = (x / 2 ^ k % 2 ^ j) * 2 ^ k := by
  have hk : 0 < 2 ^ k := Nat.pow_pos (by decide)
  have hm : (x &&& ((2 ^ j - 1) * 2 ^ k)) % 2 ^ k = 0 := by
    rw [Nat.and_mod_two_pow, Nat.mul_mod_left, Nat.and_zero]
  have hd : (x &&& ((2 ^ j - 1) * 2 ^ k)) / 2 ^ k = x / 2 ^ k % 2 ^ j := by
    rw [Nat.and_div_two_pow, Nat.mul_div_cancel _ hk, Nat.and_two_pow_sub_one_eq_mod]
  have := Nat.div_add_mod (x &&& ((2 ^ j - 1) * 2 ^ k)) (2 ^ k)
  rw [hm, hd] at this
  rw [← this, Nat.mul_comm]; simp

theorem or_lo (t k n : Nat) (h : n < 2 ^ k) : (t * 2 ^ k) ||| n = t * 2 ^ k + n := by
  rw [Nat.mul_comm]; exact (Nat.two_pow_add_eq_or_of_lt h t).symm

/-- Packed word: type field `t` (already shifted, a multiple of `2^k`) or'ed with `n < 2^k`;
masking with the low mask returns `n`. -/
theorem pack_lo (t k n : Nat) (h : n < 2 ^ k) : ((t * 2 ^ k) ||| n) &&& (2 ^ k - 1) = n := by
  rw [or_lo t k n h, Nat.and_two_pow_sub_one_eq_mod, Nat.add_comm, Nat.add_mul_mod_self_right,
    Nat.mod_eq_of_lt h]

theorem pack_hi (t k j n : Nat) (h : n < 2 ^ k) (ht : t < 2 ^ j) :
    ((t * 2 ^ k) ||| n) &&& ((2 ^ j - 1) * 2 ^ k) = t * 2 ^ k := by
  have hk : 0 < 2 ^ k := Nat.pow_pos (by decide)
  rw [or_lo t k n h, and_hi, Nat.add_comm, Nat.add_mul_div_right _ _ hk, Nat.div_eq_of_lt h,
    Nat.zero_add, Nat.mod_eq_of_lt ht]

theorem add_lo (t k n : Nat) (h : n < 2 ^ k) : (t * 2 ^ k + n) &&& (2 ^ k - 1) = n := by
  rw [← or_lo t k n h]; exact pack_lo t k n h

theorem add_hi (t k j n : Nat) (h : n < 2 ^ k) (ht : t < 2 ^ j) :
    (t * 2 ^ k + n) &&& ((2 ^ j - 1) * 2 ^ k) = t * 2 ^ k := by
  rw [← or_lo t k n h]; exact pack_hi t k j n h ht

/-! ### Lexicographic byte comparison (Rust `str::cmp`, `<[u8]>::cmp`) -/

def lexCmp : Bytes → Bytes → Ordering
  | [], [] => .eq
  | [], _ :: _ => .lt
  | _ :: _, [] => .gt
  | a :: as, b :: bs =>
    if a < b then .lt else if b < a then .gt else lexCmp as bs

theorem lexCmp_refl (a : Bytes) : lexCmp a a = .eq := by
  induction a with
  | nil => rfl
  | cons x xs ih => simp [lexCmp, ih]

theorem lexCmp_eq_iff (a b : Bytes) : lexCmp a b = .eq ↔ a = b := by
  induction a generalizing b with
  | nil => cases b <;> simp [lexCmp]
  | cons x xs ih =>
    cases b with
    | nil => simp [lexCmp]
    | cons y ys =>
      simp only [lexCmp]
      by_cases h1 : x < y
      · simp [h1]; intro h; subst h; exact absurd h1 (UInt8.lt_irrefl _)
      · by_cases h2 : y < x
        · simp [h1, h2]; intro h; subst h; exact absurd h2 (UInt8.lt_irrefl _)
        · have : x = y := UInt8.le_antisymm (UInt8.not_lt.mp h2) (UInt8.not_lt.mp h1)
          subst this
          simp [ih]

end Jsonb
