/-
Implementation model of jsonpath/selector.rs: the frontier of `Position`s with raw offsets,
`select_*`, `convert_index/slice`, `filter_expr`, the four result modes and their writers.
-/
import JsonbModel.Walk
import JsonbModel.Ser
import JsonbModel.PathAst
import JsonbModel.NumOrd

namespace Jsonb.Sel

inductive Pos where
  | container (off len : Nat)
  | scalar (ty off len : Nat)
  deriving Repr, DecidableEq

/-- nom `be_u32` on `&root[off..]`: slicing past the end panics, a short read is an error -/
def headerAt (root : Bytes) (off : Nat) : Res (Nat × Nat) :=
  if off > root.length then .panic "slice start out of range"
  else match readU32At root off with
    | some h => .ok (hdrType h, hdrLen h)
    | none => .err "InvalidJsonb"

/-- `decode_jentries(rest, n)` at absolute offset: `(type, length)` pairs -/
def entriesAt (root : Bytes) : Nat → Nat → Res (List (Nat × Nat))
  | 0, _ => .ok []
  | n+1, off =>
    match readU32At root off with
    | none => .err "InvalidJsonb"
    | some w => (entriesAt root n (off + 4)).map ((jeType w, jeLen w) :: ·)

def mkPos (ty off len : Nat) : Pos :=
  if ty = C.CONTAINER_TAG then .container off len else .scalar ty off len

/-- positions of consecutive entries starting at `off` -/
def layPos : List (Nat × Nat) → Nat → List Pos
  | [], _ => []
  | (ty, len) :: es, off => mkPos ty off len :: layPos es (off + len)

def sumLens (es : List (Nat × Nat)) : Nat := (es.map (·.2)).sum

/-- `select_object_values` -/
def selectObjectValues (root : Bytes) (off : Nat) : Res (List Pos) :=
  match headerAt root off with
  | .ok (ty, n) =>
    if ty ≠ C.OBJECT_CONTAINER_TAG ∨ n = 0 then .ok []
    else
      match entriesAt root n (off + 4), entriesAt root n (off + 4 + 4 * n) with
      | .ok ks, .ok vs => .ok (layPos vs (off + 4 + n * 8 + sumLens ks))
      | .err e, _ => .err e
      | _, .err e => .err e
      | _, _ => .err "x"
  | .err e => .err e
  | .panic s => .panic s
  | .fuel => .fuel

/-- `select_array_values`: anything that is not an array passes through unchanged -/
def selectArrayValues (root : Bytes) (off len : Nat) : Res (List Pos) :=
  match headerAt root off with
  | .ok (ty, n) =>
    if ty ≠ C.ARRAY_CONTAINER_TAG then .ok [.container off len]
    else
      match entriesAt root n (off + 4) with
      | .ok vs => .ok (layPos vs (off + 4 + n * 4))
      | .err e => .err e
      | .panic s => .panic s
      | .fuel => .fuel
  | .err e => .err e
  | .panic s => .panic s
  | .fuel => .fuel

/-- key loop of `select_by_name`: index of the first key of equal length and bytes -/
def findKey (root name : Bytes) : List (Nat × Nat) → Nat → Nat → Res (Option Nat)
  | [], _, _ => .ok none
  | (_, klen) :: ks, off, i =>
    if name.length ≠ klen then findKey root name ks (off + klen) (i + 1)
    else
      -- `decode_string(&root[offset..], jlength)`: slice start past the end panics, short is Err
      if off > root.length then .panic "slice start out of range"
      else if off + klen > root.length then .err "InvalidJsonb"
      else if (root.drop off).take klen == name then .ok (some i)
      else findKey root name ks (off + klen) (i + 1)

/-- `select_by_name` -/
def selectByName (root : Bytes) (off : Nat) (name : Bytes) : Res (List Pos) :=
  match headerAt root off with
  | .ok (ty, n) =>
    if ty ≠ C.OBJECT_CONTAINER_TAG ∨ n = 0 then .ok []
    else
      match entriesAt root n (off + 4), entriesAt root n (off + 4 + 4 * n) with
      | .ok ks, .ok vs =>
        (match findKey root name ks (off + 4 + n * 8) 0 with
         | .ok (some i) => .ok (((layPos vs (off + 4 + n * 8 + sumLens ks))[i]?).toList)
         | .ok none => .ok []
         | .err e => .err e
         | .panic s => .panic s
         | .fuel => .fuel)
      | .err e, _ => .err e
      | _, .err e => .err e
      | _, _ => .err "x"
  | .err e => .err e
  | .panic s => .panic s
  | .fuel => .fuel

/-- `convert_index` (arithmetic in i64 after the `fix:` commit: no overflow possible) -/
def convertIndex (i : Index) (length : Int) : Option Nat :=
  let idx := match i with
    | .index n => n
    | .last n => length + n - 1
  if idx ≥ 0 ∧ idx < length then some idx.toNat else none

/-- `convert_slice` -/
def convertSlice (s e : Index) (length : Int) : List Nat :=
  let st := match s with | .index n => n | .last n => length + n - 1
  let en := match e with | .index n => n | .last n => length + n - 1
  if st > en ∨ st ≥ length ∨ en < 0 then []
  else
    let a := if st < 0 then 0 else st.toNat
    let b := if en ≥ length then (length - 1).toNat else en.toNat
    (List.range (b + 1 - a)).map (· + a)

def indicesOf (is : List ArrayIndex) (length : Int) : List Nat :=
  is.flatMap (fun ai => match ai with
    | .index i => (convertIndex i length).toList
    | .slice s e => convertSlice s e length)

/-- `select_by_indices` -/
def selectByIndices (root : Bytes) (off : Nat) (is : List ArrayIndex) : Res (List Pos) :=
  match headerAt root off with
  | .ok (ty, n) =>
    if ty ≠ C.ARRAY_CONTAINER_TAG ∨ n = 0 then .ok []
    else
      let idxs := indicesOf is n
      if idxs.isEmpty then .ok []
      else
        match entriesAt root n (off + 4) with
        | .ok vs =>
          let ps := layPos vs (off + 4 + n * 4)
          if idxs.all (· < ps.length) then .ok (idxs.filterMap (ps[·]?))
          else .panic "index out of bounds"
        | .err e => .err e
        | .panic s => .panic s
        | .fuel => .fuel
  | .err e => .err e
  | .panic s => .panic s
  | .fuel => .fuel

/-- `select_path` for a container position (`unreachable!()` for the other path kinds) -/
def selectPath (root : Bytes) (off len : Nat) : Path → Res (List Pos)
  | .dotWildcard => selectObjectValues root off
  | .bracketWildcard => selectArrayValues root off len
  | .colonField nm | .dotField nm | .objectField nm => selectByName root off nm
  | .arrayIndices is => selectByIndices root off is
  | _ => .panic "unreachable"

/-- one non-filter step applied to the whole frontier -/
def stepAll (root : Bytes) (p : Path) : List Pos → Res (List Pos)
  | [] => .ok []
  | .container off len :: rest =>
    (match selectPath root off len p with
     | .ok ps => (stepAll root p rest).map (ps ++ ·)
     | .err e => .err e
     | .panic s => .panic s
     | .fuel => .fuel)
  | .scalar ty off len :: rest =>
    -- in lax mode the bracket wildcard lets a scalar through
    (stepAll root p rest).map (fun r => if (match p with | .bracketWildcard => true | _ => false) then .scalar ty off len :: r else r)

/-- `root_position` (after the `fix:` commit): the value of a scalar document is a scalar position -/
def rootPosition (root : Bytes) : Pos :=
  match readU32At root 0 with
  | some h =>
    if hdrType h = C.SCALAR_CONTAINER_TAG then
      match readU32At root 4 with
      | some w => if jeType w ≠ C.CONTAINER_TAG then .scalar (jeType w) 8 (jeLen w) else .container 0 root.length
      | none => .container 0 root.length
    else .container 0 root.length
  | none => .container 0 root.length

/-- `PathValue::partial_cmp` (derived): variant order Null < Boolean < Number < String -/
def pvRank : PathValue → Nat
  | .null => 0 | .bool _ => 1 | .num _ => 2 | .str _ => 3
def pvCmp : PathValue → PathValue → Ordering
  | .null, .null => .eq
  | .bool a, .bool b => compare a.toNat b.toNat
  | .num a, .num b => Num.cmp a b
  | .str a, .str b => lexCmp a b
  | a, b => compare (pvRank a) (pvRank b)

/-- `compare_value` -/
def cmpOp (op : BinOp) (l r : PathValue) : Res Bool :=
  let o := pvCmp l r
  match op with
  | .eq => .ok (o == .eq)
  | .ne => .ok (o != .eq)
  | .lt => .ok (o == .lt)
  | .le => .ok (o != .gt)
  | .gt => .ok (o == .gt)
  | .ge => .ok (o != .lt)
  | _ => .panic "unreachable"

/-- the scalar positions of a frontier as `PathValue`s (containers contribute nothing) -/
def valuesOf (root : Bytes) : List Pos → Res (List PathValue)
  | [] => .ok []
  | .container _ _ :: rest => valuesOf root rest
  | .scalar ty off len :: rest =>
    let vR : Res PathValue :=
      if ty = C.NULL_TAG then .ok .null
      else if ty = C.TRUE_TAG then .ok (.bool true)
      else if ty = C.FALSE_TAG then .ok (.bool false)
      else if ty = C.NUMBER_TAG then
        match slice root off (off + len) with
        | .ok p => (match Num.dec p with
                    | .ok n => .ok (.num n)
                    | .err e => .err e
                    | .panic s => .panic s
                    | .fuel => .fuel)
        | .err e => .err e
        | .panic s => .panic s
        | .fuel => .fuel
      else if ty = C.STRING_TAG then (slice root off (off + len)).map PathValue.str
      else .panic "unreachable"
    match vR with
    | .ok v => (valuesOf root rest).map (v :: ·)
    | .err e => .err e
    | .panic s => .panic s
    | .fuel => .fuel

def anyPair (op : BinOp) : List PathValue → List PathValue → Res Bool
  | [], _ => .ok false
  | l :: ls, rs =>
    let rec inner : List PathValue → Res Bool
      | [] => .ok false
      | r :: rs' =>
        match cmpOp op l r with
        | .ok true => .ok true
        | .ok false => inner rs'
        | .err e => .err e
        | .panic s => .panic s
        | .fuel => .fuel
    match inner rs with
    | .ok true => .ok true
    | .ok false => anyPair op ls rs
    | .err e => .err e
    | .panic s => .panic s
    | .fuel => .fuel

/-- operand paths of a comparison: `paths.iter().skip(1)` applied from the start position -/
def operandSteps (root : Bytes) : List Path → List Pos → Res (List Pos)
  | [], ps => .ok ps
  | p :: rest, ps =>
    match p with
    | .root | .current | .filterExpr _ | .predicate _ => .panic "unreachable"
    | _ =>
      match stepAll root p ps with
      | .ok ps' => operandSteps root rest ps'
      | .err e => .err e
      | .panic s => .panic s
      | .fuel => .fuel

mutual
/-- `find_positions(root, current, paths)` -/
def findPositions : Nat → Bytes → Option Pos → List Path → Res (List Pos)
  | 0, _, _, _ => .fuel
  | fuel+1, root, current, paths =>
    let startR : Res Pos :=
      match paths.head? with
      | some .current => (match current with
                          | some c => .ok c
                          | none => .panic "missing current position")
      | _ => .ok (rootPosition root)
    match startR with
    | .ok start => walk fuel root paths [start]
    | .err e => .err e
    | .panic s => .panic s
    | .fuel => .fuel
/-- the `for path in paths.iter()` loop over the frontier -/
def walk : Nat → Bytes → List Path → List Pos → Res (List Pos)
  | 0, _, _, _ => .fuel
  | _+1, _, [], ps => .ok ps
  | fuel+1, root, p :: rest, ps =>
    match p with
    | .root | .current => walk fuel root rest ps
    | .filterExpr e | .predicate e =>
      (match filterAll fuel root e ps with
       | .ok ps' => walk fuel root rest ps'
       | .err er => .err er
       | .panic s => .panic s
       | .fuel => .fuel)
    | _ =>
      (match stepAll root p ps with
       | .ok ps' => walk fuel root rest ps'
       | .err er => .err er
       | .panic s => .panic s
       | .fuel => .fuel)
def filterAll : Nat → Bytes → Expr → List Pos → Res (List Pos)
  | 0, _, _, _ => .fuel
  | _+1, _, _, [] => .ok []
  | fuel+1, root, e, pos :: rest =>
    match filterExpr fuel root pos e with
    | .ok keep =>
      (match filterAll fuel root e rest with
       | .ok r => .ok (if keep then pos :: r else r)
       | .err er => .err er
       | .panic s => .panic s
       | .fuel => .fuel)
    | .err er => .err er
    | .panic s => .panic s
    | .fuel => .fuel
/-- `filter_expr(root, pos, expr)` -/
def filterExpr : Nat → Bytes → Pos → Expr → Res Bool
  | 0, _, _, _ => .fuel
  | fuel+1, root, pos, e =>
    match e with
    | .binaryOp .or l r =>
      (match filterExpr fuel root pos l, filterExpr fuel root pos r with
       | .ok a, .ok b => .ok (a || b)
       | .ok _, x => x
       | x, _ => x)
    | .binaryOp .and l r =>
      (match filterExpr fuel root pos l, filterExpr fuel root pos r with
       | .ok a, .ok b => .ok (a && b)
       | .ok _, x => x
       | x, _ => x)
    | .binaryOp op l r =>
      (match exprVal fuel root pos l with
       | .ok lv =>
         (match exprVal fuel root pos r with
          | .ok rv => anyPair op lv rv
          | .err er => .err er
          | .panic s => .panic s
          | .fuel => .fuel)
       | .err er => .err er
       | .panic s => .panic s
       | .fuel => .fuel)
    | .existsFn paths => (findPositions fuel root (some pos) paths).map (fun ps => !ps.isEmpty)
    | _ => .err "InvalidJsonPath"
/-- `convert_expr_val` -/
def exprVal : Nat → Bytes → Pos → Expr → Res (List PathValue)
  | 0, _, _, _ => .fuel
  | _+1, root, pos, e =>
    match e with
    | .value v => .ok [v]
    | .paths paths =>
      let start := match paths.head? with
        | some .current => pos
        | _ => rootPosition root
      (match operandSteps root (paths.drop 1) [start] with
       | .ok ps => valuesOf root ps
       | .err er => .err er
       | .panic s => .panic s
       | .fuel => .fuel)
    | _ => .panic "unreachable"
end

inductive Mode where
  | first | array | all | mixed
  deriving Repr, DecidableEq

def isPredicate (jp : JsonPath) : Bool :=
  match jp with
  | [.predicate _] => true
  | _ => false

/-- `build_values`: each item as its own document; an end offset per item -/
def buildValues (root : Bytes) : List Pos → Bytes → List Nat → Res (Bytes × List Nat)
  | [], data, offs => .ok (data, offs)
  | .container off len :: rest, data, offs =>
    (match slice root off (off + len) with
     | .ok p => buildValues root rest (data ++ p) (offs ++ [(data ++ p).length])
     | .err e => .err e
     | .panic s => .panic s
     | .fuel => .fuel)
  | .scalar ty off len :: rest, data, offs =>
    let hdr := u32be C.SCALAR_CONTAINER_TAG ++ u32be (ty ||| (len % 4294967296))
    if len > 0 then
      match slice root off (off + len) with
      | .ok p => buildValues root rest (data ++ (hdr ++ p)) (offs ++ [(data ++ (hdr ++ p)).length])
      | .err e => .err e
      | .panic s => .panic s
      | .fuel => .fuel
    else buildValues root rest (data ++ hdr) (offs ++ [(data ++ hdr).length])

/-- item payload loop of `build_scalar_array`: entry words and payloads -/
def arrayParts (root : Bytes) : List Pos → Res (Bytes × Bytes)
  | [] => .ok ([], [])
  | .container off len :: rest =>
    (match slice root off (off + len), arrayParts root rest with
     | .ok p, .ok (ws, ps) => .ok (u32be (C.CONTAINER_TAG ||| (len % 4294967296)) ++ ws, p ++ ps)
     | .panic s, _ => .panic s
     | _, .panic s => .panic s
     | .err e, _ => .err e
     | _, x => x.map id)
  | .scalar ty off len :: rest =>
    let pR : Res Bytes := if len > 0 then slice root off (off + len) else .ok []
    (match pR, arrayParts root rest with
     | .ok p, .ok (ws, ps) => .ok (u32be (ty ||| (len % 4294967296)) ++ ws, p ++ ps)
     | .panic s, _ => .panic s
     | _, .panic s => .panic s
     | .err e, _ => .err e
     | _, x => x.map id)

/-- `build_scalar_array`: one array of all items (reserve the entry area, patch each word) -/
def buildArrayOf (root : Bytes) (ps : List Pos) (data : Bytes) (offs : List Nat) : Res (Bytes × List Nat) :=
  match arrayParts root ps with
  | .ok (ws, pays) =>
    let d := data ++ (u32be (C.ARRAY_CONTAINER_TAG ||| (ps.length % 4294967296)) ++ (ws ++ pays))
    .ok (d, offs ++ [d.length])
  | .err e => .err e
  | .panic s => .panic s
  | .fuel => .fuel

mutual
def pathSize : Path → Nat
  | .arithmeticExpr e | .filterExpr e | .predicate e => 1 + exprSize e
  | _ => 1
def exprSize : Expr → Nat
  | .paths ps => 1 + pathsSize ps
  | .value _ => 1
  | .binaryOp _ l r => 1 + exprSize l + exprSize r
  | .arithUnary _ e => 1 + exprSize e
  | .arithBinary _ l r => 1 + exprSize l + exprSize r
  | .existsFn ps => 1 + pathsSize ps
def pathsSize : List Path → Nat
  | [] => 0
  | p :: ps => pathSize p + pathsSize ps
end

mutual
/-- total number of index / slice entries anywhere in a path -/
def pathIdx : Path → Nat
  | .arrayIndices is => is.length
  | .arithmeticExpr e | .filterExpr e | .predicate e => exprIdx e
  | _ => 0
def exprIdx : Expr → Nat
  | .paths ps => pathsIdx ps
  | .value _ => 0
  | .binaryOp _ l r => exprIdx l + exprIdx r
  | .arithUnary _ e => exprIdx e
  | .arithBinary _ l r => exprIdx l + exprIdx r
  | .existsFn ps => pathsIdx ps
def pathsIdx : List Path → Nat
  | [] => 0
  | p :: ps => pathIdx p + pathsIdx ps
end

/-- fuel: every call decrements it (one unit per position in `filterAll`).  A step multiplies the
number of positions by at most (children of a container) × (index entries of the step): repeated
indices such as `[0,0,0]` grow the frontier beyond the size of the document.  The model keeps
any non-fuel answer under more fuel (`model_mono`) and some fuel always suffices
(`findPositions_terminates`), so a generous bound is sound. -/
def selFuel (root : Bytes) (jp : JsonPath) : Nat :=
  ((root.length + 4) * (pathsIdx jp + 2)) ^ (pathsSize jp + 2) + 16

/-- `Selector::select(root, data, offsets)` -/
def select (jp : JsonPath) (mode : Mode) (root data : Bytes) (offs : List Nat) (fuel : Nat) : Res (Bytes × List Nat) :=
  match findPositions fuel root none jp with
  | .ok ps =>
    if isPredicate jp then
      .ok (data ++ (u32be C.SCALAR_CONTAINER_TAG ++ u32be (if ps.isEmpty then C.FALSE_TAG else C.TRUE_TAG)), offs)
    else
      (match mode with
       | .all => buildValues root ps data offs
       | .first => buildValues root (ps.take 1) data offs
       | .array => buildArrayOf root ps data offs
       | .mixed => if ps.length > 1 then buildArrayOf root ps data offs else buildValues root ps data offs)
  | .err e => .err e
  | .panic s => .panic s
  | .fuel => .fuel

/-- `Selector::exists` -/
def exists_ (jp : JsonPath) (root : Bytes) (fuel : Nat) : Res Bool :=
  if isPredicate jp then .ok true
  else (findPositions fuel root none jp).map (fun ps => !ps.isEmpty)

/-- `Selector::predicate_match` -/
def predicateMatch (jp : JsonPath) (root : Bytes) (fuel : Nat) : Res Bool :=
  if !isPredicate jp then .err "InvalidJsonPathPredicate"
  else (findPositions fuel root none jp).map (fun ps => !ps.isEmpty)

end Jsonb.Sel
