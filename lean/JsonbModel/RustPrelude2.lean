/-
Semantics of the Rust constructs used by the phase-2 translation (`Generated/Translated2.lean`,
written by `tools/rs2lean2.py`): loops, `break` / `continue`, `?` on `Option`, growable byte
buffers, strings as their UTF-8 bytes, queues.  HAND-WRITTEN and TRUSTED, like `RustPrelude.lean`
which it extends; the translator only maps syntax to these names.

Conventions added to those of `RustPrelude.lean` (documented in tools/RS2LEAN.md):
* a loop is a fold of its body over the state tuple of the locals it assigns.  The body is a
  separate definition `<fn>.loop<k>`; it ends with `Step.next s` (fell off the end / `continue`)
  or `Step.done s` (`break`), or leaves the enclosing function (`return`, `?`, panic) through `Ctl`;
* `for x in a..b` runs `max (b - a) 0` times (`forRange`, structural); `for x in xs` is structural
  on the list (`forIn`); `while` / `loop` / `while let` take an explicit iteration bound
  (`whileFuel`) and end the function with the distinct outcome `Res.fuel` when it is exhausted:
  an agreement theorem can only be proved when that never happens;
* inside a loop body the `Ctl` result type is `LoopCtl ρ σ`: `brk s` / `cont s` carry the state at
  a `break` / `continue`, `ret r` is a `return r` of the enclosing function (or loop body);
* `String` / `&str` are their UTF-8 bytes (`Bytes`); `char` is its scalar value (`Nat`);
* `VecDeque<T>` / `Vec<T>` are `List T`; `&mut` parameters are returned next to the result.
Imports: RustPrelude only.
-/
import JsonbModel.RustPrelude

namespace Jsonb.Rs

/-! ## Loops -/

/-- how one iteration ended, seen from the loop: go on with state `s`, or stop with state `s` -/
inductive Step (σ : Type) where
  | next (s : σ)
  | done (s : σ)

/-- the ways a loop body finishes other than reaching its end: `break`, `continue`, or a
`return r` of what encloses the loop -/
inductive LoopCtl (ρ σ : Type) where
  | brk (s : σ)
  | cont (s : σ)
  | ret (r : ρ)

/-- closes a loop body: reaching the end or `continue` = next iteration, `break` = stop,
`return` / error / panic = leave the enclosing function -/
def loopStep {ρ σ : Type} (x : Ctl (LoopCtl ρ σ) σ) : Ctl ρ (Step σ) :=
  match x with
  | .val s => .val (.next s)
  | .ret (.ok (.cont s)) => .val (.next s)
  | .ret (.ok (.brk s)) => .val (.done s)
  | .ret (.ok (.ret r)) => .ret (.ok r)
  | .ret (.err e) => .ret (.err e)
  | .ret (.panic p) => .ret (.panic p)
  | .ret .fuel => .ret .fuel

/-- `n` iterations of `for i in a..`, starting at `i` -/
def forRangeAux {ρ σ : Type} (body : Int → σ → Ctl ρ (Step σ)) : Nat → Int → σ → Ctl ρ σ
  | 0, _, s => .val s
  | n + 1, i, s =>
    match body i s with
    | .val (.next s') => forRangeAux body n (i + 1) s'
    | .val (.done s') => .val s'
    | .ret r => .ret r

/-- `for i in a..b { body }` (both bounds already evaluated) -/
def forRange {ρ σ : Type} (a b : Int) (init : σ) (body : Int → σ → Ctl ρ (Step σ)) : Ctl ρ σ :=
  forRangeAux body (b - a).toNat a init

/-- `for x in xs { body }` over the elements of a slice / `Vec` / array, in order -/
def forIn {ρ σ α : Type} (xs : List α) (init : σ) (body : α → σ → Ctl ρ (Step σ)) : Ctl ρ σ :=
  match xs with
  | [] => .val init
  | x :: rest =>
    match body x init with
    | .val (.next s') => forIn rest s' body
    | .val (.done s') => .val s'
    | .ret r => .ret r

/-- `while … { body }` / `loop { body }` / `while let … { body }` with an explicit bound on the
number of iterations; the test is part of `body`.  Exhausting the bound is `Res.fuel`. -/
def whileFuel {ρ σ : Type} (fuel : Nat) (init : σ) (body : σ → Ctl ρ (Step σ)) : Ctl ρ σ :=
  match fuel with
  | 0 => .ret .fuel
  | n + 1 =>
    match body init with
    | .val (.next s') => whileFuel n s' body
    | .val (.done s') => .val s'
    | .ret r => .ret r

/-- the elements of a byte slice as `u8` values (`for b in bytes`, `bytes.iter()`) -/
def iterBytes (bs : Bytes) : List Int := bs.map (fun b => (b.toNat : Int))

/-- `.enumerate()` -/
def enumerateFrom {α : Type} : Nat → List α → List (Int × α)
  | _, [] => []
  | k, x :: xs => ((k : Int), x) :: enumerateFrom (k + 1) xs
def enumerate {α : Type} (xs : List α) : List (Int × α) := enumerateFrom 0 xs

/-! ## `?` and friends on `Option` / `Result` values -/

/-- `r.ok()?` (and `match r { Ok(v) => v, Err(_) => return … }`): the value of an `Ok`, otherwise
the enclosing function finishes with `onErr`; a panic stays a panic -/
def okQ {ρ α : Type} (r : Res α) (onErr : Res ρ) : Ctl ρ α :=
  match r with
  | .ok a => .val a
  | .err _ => .ret onErr
  | .panic s => .ret (.panic s)
  | .fuel => .ret .fuel

/-- `o?` on an `Option` (and `let Some(v) = o else { return … }`) -/
def optQ {ρ α : Type} (o : Option α) (onNone : Res ρ) : Ctl ρ α :=
  match o with
  | some a => .val a
  | none => .ret onNone

/-- `r.unwrap_or_default()` / `r.unwrap_or(d)` on a `Result` -/
def resUnwrapOr {α : Type} (r : Res α) (d : α) : Res α :=
  match r with
  | .ok a => .ok a
  | .err _ => .ok d
  | .panic s => .panic s
  | .fuel => .fuel

/-! ## Growable buffers -/

/-- `Vec::<T>::with_capacity(n)` / `VecDeque::with_capacity(n)`: empty; more than `isize::MAX`
bytes is the `capacity overflow` panic (`elemSize` = `size_of::<T>()`) -/
def vecWithCapacity (α : Type) (elemSize : Nat) (n : Int) : Res (List α) :=
  if n * (elemSize : Int) ≤ IntTy.isize.maxVal then .ok [] else .panic "capacity overflow"

/-- `v.extend_from_slice(s)` (growing a `Vec` beyond `isize::MAX` bytes is outside the domain of
every agreement theorem) -/
def extendFromSlice {α : Type} (v s : List α) : List α := v ++ s

/-- `v.push(x)` on a `Vec<u8>` -/
def pushByte (v : Bytes) (x : Int) : Bytes := v ++ [u8 x]

/-- `v.resize(n, x)` on a `Vec<u8>` -/
def resize (v : Bytes) (n : Int) (x : Int) : Bytes :=
  if n.toNat ≤ v.length then v.take n.toNat else v ++ List.replicate (n.toNat - v.length) (u8 x)

/-- `v[i] = x` on bytes: panics when out of bounds -/
def setIndex (v : Bytes) (i : Int) (x : Int) : Res Bytes :=
  if 0 ≤ i ∧ i < (v.length : Int) then .ok (v.set i.toNat (u8 x)) else .panic "index out of bounds"

/-- `q.push_back(x)` -/
def pushBack {α : Type} (q : List α) (x : α) : List α := q ++ [x]

/-- `q.pop_front()`: the element and the remaining queue -/
def popFront {α : Type} (q : List α) : Option (α × List α) :=
  match q with
  | [] => none
  | x :: rest => some (x, rest)

/-! ## Strings (UTF-8 bytes) and chars (scalar values) -/

/-- a string literal -/
def strLit (s : String) : Bytes := s.toUTF8.toList

/-- the UTF-8 encoding of a scalar value (`String::push`, `char::encode_utf8`) -/
def encodeChar (c : Nat) : Bytes :=
  if c < 0x80 then [UInt8.ofNat c]
  else if c < 0x800 then [UInt8.ofNat (0xC0 + c / 64), UInt8.ofNat (0x80 + c % 64)]
  else if c < 0x10000 then
    [UInt8.ofNat (0xE0 + c / 4096), UInt8.ofNat (0x80 + c / 64 % 64), UInt8.ofNat (0x80 + c % 64)]
  else
    [UInt8.ofNat (0xF0 + c / 262144), UInt8.ofNat (0x80 + c / 4096 % 64),
     UInt8.ofNat (0x80 + c / 64 % 64), UInt8.ofNat (0x80 + c % 64)]

/-- `s.push(c)` -/
def pushChar (s : Bytes) (c : Nat) : Bytes := s ++ encodeChar c

/-- `s.push_str(t)` -/
def pushStr (s t : Bytes) : Bytes := s ++ t

/-- one lower-case hexadecimal digit -/
def hexDigitLower (d : Nat) : UInt8 := if d < 10 then UInt8.ofNat (48 + d) else UInt8.ofNat (87 + d)

/-- all hexadecimal digits of `n`, most significant first (at least one) -/
def hexDigitsLower (n : Nat) : Bytes := ((Nat.toDigits 16 n).map (fun c => UInt8.ofNat c.toNat))

/-- `format!("{:0<w>x}", x)` for a non-negative integer: lower-case hexadecimal, left-padded with
`0` to at least `w` digits -/
def fmtLowerHexPad (w : Nat) (x : Int) : Bytes :=
  let ds := hexDigitsLower x.toNat
  List.replicate (w - ds.length) 0x30 ++ ds

/-- `to_ascii_lowercase` on a byte -/
def asciiLower (b : UInt8) : UInt8 := if 0x41 ≤ b.toNat ∧ b.toNat ≤ 0x5A then UInt8.ofNat (b.toNat + 32) else b

/-- `a.eq_ignore_ascii_case(b)`: same length and bytewise equal after `to_ascii_lowercase` -/
def eqIgnoreAsciiCase (a b : Bytes) : Bool :=
  match a, b with
  | [], [] => true
  | x :: xs, y :: ys => asciiLower x == asciiLower y && eqIgnoreAsciiCase xs ys
  | _, _ => false

/-! ## Simp lemmas for the control combinators -/

@[simp] theorem loopStep_val {ρ σ : Type} (s : σ) :
    loopStep (Ctl.val s : Ctl (LoopCtl ρ σ) σ) = .val (.next s) := rfl
@[simp] theorem loopStep_cont {ρ σ : Type} (s : σ) :
    loopStep (Ctl.ret (.ok (.cont s)) : Ctl (LoopCtl ρ σ) σ) = .val (.next s) := rfl
@[simp] theorem loopStep_brk {ρ σ : Type} (s : σ) :
    loopStep (Ctl.ret (.ok (.brk s)) : Ctl (LoopCtl ρ σ) σ) = .val (.done s) := rfl
@[simp] theorem loopStep_ret {ρ σ : Type} (r : ρ) :
    loopStep (Ctl.ret (.ok (.ret r)) : Ctl (LoopCtl ρ σ) σ) = .ret (.ok r) := rfl
@[simp] theorem loopStep_err {ρ σ : Type} (e : String) :
    loopStep (Ctl.ret (.err e) : Ctl (LoopCtl ρ σ) σ) = .ret (.err e) := rfl
@[simp] theorem loopStep_panic {ρ σ : Type} (p : String) :
    loopStep (Ctl.ret (.panic p) : Ctl (LoopCtl ρ σ) σ) = .ret (.panic p) := rfl

@[simp] theorem okQ_ok {ρ α : Type} (a : α) (r : Res ρ) : okQ (.ok a) r = .val a := rfl
@[simp] theorem okQ_err {ρ α : Type} (e : String) (r : Res ρ) : okQ (.err e : Res α) r = .ret r := rfl
@[simp] theorem okQ_panic {ρ α : Type} (s : String) (r : Res ρ) :
    okQ (.panic s : Res α) r = .ret (.panic s) := rfl
@[simp] theorem optQ_some {ρ α : Type} (a : α) (r : Res ρ) : optQ (some a) r = .val a := rfl
@[simp] theorem optQ_none {ρ α : Type} (r : Res ρ) : optQ (none : Option α) r = .ret r := rfl

end Jsonb.Rs
