/-
Second part of the hand-written, trusted semantics of Rust primitives: integer -> `f64`
conversion.  Kept apart from `RustPrelude.lean` because it is not defined from first principles
here: `x as f64` is MAPPED to the model's own round-to-nearest-even conversion
`F64.ofIntRNE` / `F64.ofNatRNE` of `JsonbModel/NumOrd.lean` (which C18 proves to be within half
an ulp and which the differential check validates against the real `as f64`).  The agreement
theorem for `Number::as_f64` therefore only ties the *structure* of the function (which arm
converts what, `Some` everywhere) to the model, not the rounding itself.
-/
import JsonbModel.RustPrelude
import JsonbModel.NumOrd

namespace Jsonb.Rs

/-- `x as f64` for any integer type (IEEE-754 round to nearest, ties to even), as a bit pattern -/
def intAsF64 (x : Int) : Nat := F64.ofIntRNE x

end Jsonb.Rs
