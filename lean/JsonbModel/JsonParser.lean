/-
Implementation model of the JSON *text* parser: parser.rs (`Parser`, `parse_value`) and the
string helpers of util.rs (`parse_string`, `parse_escaped_string`, `decode_hex_escape`,
`encode_invalid_unicode`, `HEX`).

The model follows the Rust code as written: one immutable buffer `buf`, the cursor `idx`
(a `Nat`; `usize` additions are assumed not to wrap, the cursor never exceeds `buf.len() + 6`),
the same order of checks and the same skips.  Every Rust operation that can panic is an
explicit `Res.panic` outcome guarded exactly as the Rust code guards it (slice indexing,
`.unwrap()`, checked `usize`/`u16` arithmetic); `JsonParserTotal.lean` proves that none of
them is reachable.  Errors are `Res.err` (the error value itself is not modelled).

Assumptions about library code (trusted, validated by differential testing):
* `str::parse::<u64>` / `parse::<i64>` = exact decimal value with range check;
* `fast_float2::parse` = `F64.ofDecimal` of the decomposed literal (correct rounding, overflow
  to ±inf) and it accepts every literal the lexer lets through;
* `std::str::from_utf8` / `String::from_utf8` succeed iff `validUtf8`;
* `String::push(char)` appends `encodeUtf8` of the code point;
* `BTreeMap::insert` = `insertKV`.
No Mathlib.
-/
import JsonbModel.Value
import JsonbModel.De
import JsonbModel.F64Dec

namespace Jsonb

/-- UTF-8 encoding of a code point (`String::push(char)`); the argument is a `char`, i.e.
`< 0x110000` and not a surrogate, wherever this is called. -/
def encodeUtf8 (c : Nat) : Bytes :=
  if c < 0x80 then [UInt8.ofNat c]
  else if c < 0x800 then [UInt8.ofNat (0xC0 + c / 64), UInt8.ofNat (0x80 + c % 64)]
  else if c < 0x10000 then
    [UInt8.ofNat (0xE0 + c / 4096), UInt8.ofNat (0x80 + c / 64 % 64), UInt8.ofNat (0x80 + c % 64)]
  else
    [UInt8.ofNat (0xF0 + c / 262144), UInt8.ofNat (0x80 + c / 4096 % 64),
     UInt8.ofNat (0x80 + c / 64 % 64), UInt8.ofNat (0x80 + c % 64)]

namespace JP

/-! ### Primitive operations -/

/-- `u8::is_ascii_whitespace`: space, `\t`, `\n`, form feed, `\r` -/
def isWs (c : UInt8) : Bool := c == 0x20 || c == 0x09 || c == 0x0A || c == 0x0C || c == 0x0D

/-- `u8::is_ascii_digit` -/
def isDigit (c : UInt8) : Bool := 0x30 ≤ c && c ≤ 0x39

/-- panicking index `buf[i]` -/
def bufIndex (site : String) (buf : Bytes) (i : Nat) : Res UInt8 :=
  match buf[i]? with
  | some c => .ok c
  | none => .panic site

/-- `buf.get(i).unwrap()` -/
def getUnwrap (site : String) (buf : Bytes) (i : Nat) : Res UInt8 :=
  match buf[i]? with
  | some c => .ok c
  | none => .panic site

/-- panicking range slice `&buf[a..b]` -/
def slice (site : String) (buf : Bytes) (a b : Nat) : Res Bytes :=
  if a > b then .panic (site ++ ": slice index starts after end")
  else if b > buf.length then .panic (site ++ ": range end out of range")
  else .ok ((buf.take b).drop a)

/-- checked `usize` subtraction (overflow checks on) -/
def subUsize (site : String) (a b : Nat) : Res Nat :=
  if a < b then .panic (site ++ ": attempt to subtract with overflow") else .ok (a - b)

/-! ### `skip_unused` -/

/-- `self.idx + 1 < self.buf.len() && matches!(self.buf[self.idx + 1], b'n' | b'r' | b't')` -/
def escWs2 (buf : Bytes) (idx : Nat) : Res Bool :=
  if idx + 1 < buf.length then do
    let c ← bufIndex "skip_unused: buf[idx+1]" buf (idx + 1)
    pure (c == 0x6E || c == 0x72 || c == 0x74)
  else pure false

/-- `self.idx + 3 < self.buf.len() && buf[idx+1] == b'x' && buf[idx+2] == b'0' && buf[idx+3] == b'C'` -/
def escWs4 (buf : Bytes) (idx : Nat) : Res Bool :=
  if idx + 3 < buf.length then do
    let c1 ← bufIndex "skip_unused: buf[idx+1]" buf (idx + 1)
    if c1 != 0x78 then pure false else do
    let c2 ← bufIndex "skip_unused: buf[idx+2]" buf (idx + 2)
    if c2 != 0x30 then pure false else do
    let c3 ← bufIndex "skip_unused: buf[idx+3]" buf (idx + 3)
    pure (c3 == 0x43)
  else pure false

def skipUnused (buf : Bytes) (idx : Nat) : Res Nat :=
  if h : idx < buf.length then do
    let c ← getUnwrap "skip_unused: get(idx).unwrap()" buf idx
    if isWs c then skipUnused buf (idx + 1)
    else if c == 0x5C then do
      let b2 ← escWs2 buf idx
      if b2 then skipUnused buf (idx + 2)
      else do
        let b4 ← escWs4 buf idx
        if b4 then skipUnused buf (idx + 4) else pure idx
    else pure idx
  else pure idx
termination_by buf.length - idx
decreasing_by all_goals omega

/-! ### small cursor helpers -/

/-- `next()`: the byte under the cursor or `InvalidEOF` -/
def next (buf : Bytes) (idx : Nat) : Res UInt8 :=
  match buf[idx]? with
  | some c => .ok c
  | none => .err "InvalidEOF"

/-- `must_is(c)`: returns the stepped cursor -/
def mustIs (buf : Bytes) (idx : Nat) (c : UInt8) : Res Nat :=
  match buf[idx]? with
  | some v => if v == c then .ok (idx + 1) else .err "ExpectedSomeIdent"
  | none => .err "InvalidEOF"

def checkNext (buf : Bytes) (idx : Nat) (c : UInt8) : Res Bool :=
  if idx < buf.length then do
    let v ← getUnwrap "check_next: get(idx).unwrap()" buf idx
    pure (v == c)
  else pure false

def checkNextEither (buf : Bytes) (idx : Nat) (c1 c2 : UInt8) : Res Bool :=
  if idx < buf.length then do
    let v ← getUnwrap "check_next_either: get(idx).unwrap()" buf idx
    pure (v == c1 || v == c2)
  else pure false

def checkDigit (buf : Bytes) (idx : Nat) : Res Bool :=
  if idx < buf.length then do
    let v ← getUnwrap "check_digit: get(idx).unwrap()" buf idx
    pure (isDigit v)
  else pure false

/-- the `while` loop of `step_digits`; returns `(len, idx)` -/
def stepDigitsLoop (buf : Bytes) (idx len : Nat) : Res (Nat × Nat) :=
  if h : idx < buf.length then do
    let c ← getUnwrap "step_digits: get(idx).unwrap()" buf idx
    if !isDigit c then pure (len, idx) else stepDigitsLoop buf (idx + 1) (len + 1)
  else pure (len, idx)
termination_by buf.length - idx
decreasing_by omega

def stepDigits (buf : Bytes) (idx : Nat) : Res (Nat × Nat) :=
  if idx == buf.length then .err "InvalidEOF" else stepDigitsLoop buf idx 0

/-- `for v in data { self.must_is(v)?; }` -/
def mustAll (buf : Bytes) (idx : Nat) : List UInt8 → Res Nat
  | [] => .ok idx
  | c :: cs => do
    let idx ← mustIs buf idx c
    mustAll buf idx cs

/-! ### Numbers -/

/-- value of a string of ASCII digits -/
def digitsVal (ds : Bytes) : Nat := ds.foldl (fun a d => a * 10 + (d.toNat - 48)) 0

/-- drop one leading `+` -/
def stripPlus : Bytes → Bytes
  | 0x2B :: r => r
  | s => s

/-- `str::parse::<u64>`: optional `+`, at least one digit, only digits, value `< 2^64` -/
def parseU64 (s : Bytes) : Option Nat :=
  let ds := stripPlus s
  if ds.isEmpty || !ds.all isDigit then none
  else if digitsVal ds < 18446744073709551616 then some (digitsVal ds) else none

/-- `str::parse::<i64>`: optional sign, at least one digit, only digits, value in range -/
def parseI64 (s : Bytes) : Option Int :=
  match s with
  | 0x2D :: ds =>
    if ds.isEmpty || !ds.all isDigit then none
    else if digitsVal ds ≤ 9223372036854775808 then some (-(digitsVal ds : Int)) else none
  | _ =>
    let ds := stripPlus s
    if ds.isEmpty || !ds.all isDigit then none
    else if digitsVal ds < 9223372036854775808 then some (digitsVal ds : Int) else none

/-- longest prefix of digits and the rest -/
def spanDigits : Bytes → Bytes × Bytes
  | [] => ([], [])
  | c :: cs => if isDigit c then let (a, b) := spanDigits cs; (c :: a, b) else ([], c :: cs)

/-- `fast_float2::parse::<f64>` restricted to the decimal literal grammar
`-? digits* (. digits*)? ([eE] [+-]? digits+)?` with at least one mantissa digit and nothing
left over.  (The library also accepts `inf`/`nan` spellings and a leading `+`; the lexer never
produces them.) -/
def parseFloat (s : Bytes) : Option Nat :=
  let (neg, s1) := match s with
    | 0x2D :: r => (true, r)
    | _ => (false, s)
  let (ip, s2) := spanDigits s1
  let (fp, s3) := match s2 with
    | 0x2E :: r => spanDigits r
    | _ => ([], s2)
  if ip.isEmpty && fp.isEmpty then none
  else
    let expPart : Option (Int × Bytes) :=
      match s3 with
      | c :: r =>
        if c == 0x65 || c == 0x45 then
          let (eneg, r1) := match r with
            | 0x2D :: r' => (true, r')
            | 0x2B :: r' => (false, r')
            | _ => (false, r)
          let (ed, r2) := spanDigits r1
          if ed.isEmpty then none
          else some (if eneg then -(digitsVal ed : Int) else (digitsVal ed : Int), r2)
        else some (0, s3)
      | [] => some (0, [])
    match expPart with
    | some (e, []) => some (F64.ofDecimal neg (digitsVal (ip ++ fp)) (e - (fp.length : Int)))
    | _ => none

/-- the part of `parse_json_number` after the lexer: integer attempt, then float -/
def classifyNumber (s : Bytes) (neg hasFrac hasExp : Bool) : Res JV :=
  let intTry : Option Num :=
    if !hasFrac && !hasExp then
      if !neg then (parseU64 s).map Num.uint else (parseI64 s).map Num.int
    else none
  match intTry with
  | some n => .ok (.num n)
  | none =>
    match parseFloat s with
    | some b => .ok (.num (.float b))
    | none => .err "InvalidNumberValue"

/-- `if self.check_next(b'-') { negative = true; self.step(); }` -/
def lexSign (buf : Bytes) (idx : Nat) : Res (Bool × Nat) := do
  let neg ← checkNext buf idx 0x2D
  pure (neg, if neg then idx + 1 else idx)

/-- integer part: a single `0` not followed by a digit, or a non-empty run of digits -/
def lexInt (buf : Bytes) (idx : Nat) : Res Nat := do
  let z ← checkNext buf idx 0x30
  if z then do
    let d ← checkDigit buf (idx + 1)
    if d then .err "InvalidNumberValue" else pure (idx + 1)
  else do
    let (len, idx) ← stepDigits buf idx
    if len == 0 then .err "InvalidNumberValue" else pure idx

/-- optional fraction: `(has_fraction, idx)` -/
def lexFrac (buf : Bytes) (idx : Nat) : Res (Bool × Nat) := do
  let dot ← checkNext buf idx 0x2E
  if dot then do
    let (len, idx) ← stepDigits buf (idx + 1)
    if len == 0 then .err "InvalidNumberValue" else pure (true, idx)
  else pure (false, idx)

/-- optional exponent: `(has_exponent, idx)` -/
def lexExp (buf : Bytes) (idx : Nat) : Res (Bool × Nat) := do
  let ex ← checkNextEither buf idx 0x45 0x65
  if ex then do
    let sg ← checkNextEither buf (idx + 1) 0x2B 0x2D
    let (len, idx) ← stepDigits buf (if sg then idx + 2 else idx + 1)
    if len == 0 then .err "InvalidNumberValue" else pure (true, idx)
  else pure (false, idx)

/-- the lexer part of `parse_json_number`: `(negative, has_fraction, has_exponent, idx)` -/
def lexNumber (buf : Bytes) (idx : Nat) : Res (Bool × Bool × Bool × Nat) := do
  let (neg, idx) ← lexSign buf idx
  let idx ← lexInt buf idx
  let (hasFrac, idx) ← lexFrac buf idx
  let (hasExp, idx) ← lexExp buf idx
  pure (neg, hasFrac, hasExp, idx)

def parseNumber (buf : Bytes) (idx : Nat) : Res (JV × Nat) := do
  let (neg, hasFrac, hasExp, idx') ← lexNumber buf idx
  let s ← slice "parse_json_number: buf[start_idx..idx]" buf idx idx'
  let v ← classifyNumber s neg hasFrac hasExp
  pure (v, idx')

/-! ### Strings: util.rs -/

/-- `data[0]` -/
def data0 (site : String) (d : Bytes) : Res UInt8 :=
  match d with
  | b :: _ => .ok b
  | [] => .panic (site ++ ": index out of bounds")

/-- `&data[n..]` -/
def dataFrom (site : String) (d : Bytes) (n : Nat) : Res Bytes :=
  if n ≤ d.length then .ok (d.drop n) else .panic (site ++ ": range start out of range")

/-- `data.read_exact(numbers)` with `numbers.len() == UNICODE_LEN`: an `io::Error`
(`UnexpectedEof`) becomes `Err` through `?`; returns `(numbers, data)` -/
def readExact (d : Bytes) : Res (Bytes × Bytes) :=
  if C.UNICODE_LEN ≤ d.length then .ok (d.take C.UNICODE_LEN, d.drop C.UNICODE_LEN)
  else .err "io: failed to fill whole buffer"

/-- `decode_hex_val`: `HEX[val as usize]` -/
def decodeHexVal (v : UInt8) : Res (Option Nat) :=
  match C.HEX[v.toNat]? with
  | none => .panic "decode_hex_val: HEX[val]"
  | some n => if n == 255 then .ok none else .ok (some n)

/-- `decode_hex_escape`: `n = (n << 4) + hex` on `u16` (`<<` drops high bits, `+` is checked) -/
def decodeHexEscape : Bytes → Nat → Res Nat
  | [], n => .ok n
  | b :: bs, n => do
    let h ← decodeHexVal b
    match h with
    | none => .err "InvalidHex"
    | some hex =>
      let n' := n * 16 % 65536 + hex
      if n' ≥ 65536 then .panic "decode_hex_escape: attempt to add with overflow"
      else decodeHexEscape bs n'

/-- `encode_invalid_unicode`: `\`, `u`, then every byte of `numbers` as a `char` -/
def encodeInvalidUnicode (numbers : Bytes) : Bytes :=
  encodeUtf8 0x5C ++ encodeUtf8 0x75 ++ (numbers.map (fun n => encodeUtf8 n.toNat)).flatten

/-- `char::from_u32(n).unwrap()` -/
def charFromU32 (site : String) (n : Nat) : Res Nat :=
  if n < 0xD800 ∨ (0xE000 ≤ n ∧ n < 0x110000) then .ok n
  else .panic (site ++ ": char::from_u32(..).unwrap()")

/-- the `if data[0] == b'{' { … } else { … }` block reading four hex digits; returns
`(numbers, data)` -/
def readHex4 (site : String) (data : Bytes) : Res (Bytes × Bytes) := do
  let b ← data0 (site ++ " data[0]") data
  if b == 0x7B then do
    let data ← dataFrom (site ++ " &data[1..]") data 1
    let (numbers, data) ← readExact data
    let c ← data0 (site ++ " data[0] (closing brace)") data
    if c != 0x7D then .err "UnexpectedEndOfHexEscape"
    else do
      let data ← dataFrom (site ++ " &data[1..] (closing brace)") data 1
      pure (numbers, data)
  else readExact data

/-- `let n = (((n1 - 0xD800) as u32) << 10 | (n2 - 0xDC00) as u32) + 0x1_0000;
char::from_u32(n).unwrap()` with `u16` subtractions and the `u32` addition checked -/
def pairCombine (n1 n2 : Nat) : Res Nat := do
  let a ← subUsize "parse_escaped_string: n1 - 0xD800" n1 0xD800
  let b ← subUsize "parse_escaped_string: n2 - 0xDC00" n2 0xDC00
  let n := ((a <<< 10) % 4294967296 ||| b) + 0x10000
  if n ≥ 4294967296 then .panic "parse_escaped_string: attempt to add with overflow"
  else charFromU32 "parse_escaped_string(pair)" n

/-- `parse_escaped_string`, high-surrogate arm after `data = &data[2..]` (the `\\u` of a second
escape has been consumed): read the second escape and combine, or keep both literally -/
def pairLow (numbers : Bytes) (hex : Nat) (data : Bytes) : Res (Bytes × Bytes) := do
  let (lower, data) ← readHex4 "parse_escaped_string(low surrogate):" data
  let n2 ← decodeHexEscape lower 0
  if !(0xDC00 ≤ n2 ∧ n2 ≤ 0xDFFF) then
    pure (data, encodeInvalidUnicode numbers ++ encodeInvalidUnicode lower)
  else do
    let c ← pairCombine hex n2
    pure (data, encodeUtf8 c)

/-- `parse_escaped_string`, `b'u'` arm after the four hex digits have been read into
`numbers`: decode and classify -/
def afterHex (numbers data : Bytes) : Res (Bytes × Bytes) := do
  let hex ← decodeHexEscape numbers 0
  if 0xDC00 ≤ hex ∧ hex ≤ 0xDFFF then pure (data, encodeInvalidUnicode numbers)
  else if 0xD800 ≤ hex ∧ hex ≤ 0xDBFF then
    if data.length < 2 then pure (data, encodeInvalidUnicode numbers)
    else do
      let d0 ← data0 "parse_escaped_string(surrogate): data[0]" data
      let isBsU ← (if d0 == 0x5C then do
          let d1 ← bufIndex "parse_escaped_string(surrogate): data[1]" data 1
          pure (d1 == 0x75)
        else pure false : Res Bool)
      if !isBsU then pure (data, encodeInvalidUnicode numbers)
      else do
        let data ← dataFrom "parse_escaped_string(surrogate): &data[2..]" data 2
        pairLow numbers hex data
  else do
    let c ← charFromU32 "parse_escaped_string(bmp)" hex
    pure (data, encodeUtf8 c)

/-- `parse_escaped_string`; `data` starts after the backslash; returns the remaining data and
the bytes pushed to `str_buf` (which is empty on entry and discarded on error) -/
def parseEscaped (data : Bytes) : Res (Bytes × Bytes) := do
  let byte ← data0 "parse_escaped_string: data[0]" data
  let data ← dataFrom "parse_escaped_string: &data[1..]" data 1
  if byte == 0x5C then pure (data, encodeUtf8 C.BS)
  else if byte == 0x22 then pure (data, encodeUtf8 C.QU)
  else if byte == 0x2F then pure (data, encodeUtf8 C.SD)
  else if byte == 0x62 then pure (data, encodeUtf8 C.BB)
  else if byte == 0x66 then pure (data, encodeUtf8 C.FF)
  else if byte == 0x6E then pure (data, encodeUtf8 C.NN)
  else if byte == 0x72 then pure (data, encodeUtf8 C.RR)
  else if byte == 0x74 then pure (data, encodeUtf8 C.TT)
  else if byte == 0x75 then do
    let (numbers, data) ← readHex4 "parse_escaped_string(u):" data
    afterHex numbers data
  else .err "InvalidEscaped"

/-- the `while !data.is_empty()` loop of `parse_string` (fuel: one unit per iteration, every
iteration consumes at least one byte); `acc` is `buf` -/
def parseStringLoop : Nat → Bytes → Bytes → Res Bytes
  | 0, _, _ => .fuel
  | fuel + 1, data, acc =>
    if data.isEmpty then .ok acc
    else do
      let byte ← data0 "parse_string: data[0]" data
      if byte == 0x5C then do
        let data ← dataFrom "parse_string: &data[1..] (escape)" data 1
        let (data, out) ← parseEscaped data
        parseStringLoop fuel data (acc ++ out)
      else do
        let data ← dataFrom "parse_string: &data[1..]" data 1
        parseStringLoop fuel data (acc ++ [byte])

/-- `parse_string(data, len, idx)` (the capacity hint and the error position are not
modelled) -/
def parseString (data : Bytes) : Res Bytes := do
  let out ← parseStringLoop (data.length + 1) data []
  if validUtf8 out then pure out else .err "InvalidStringValue"

/-! ### Strings: parser.rs -/

/-- first pass of `parse_json_string` (the `loop`): returns `(idx, escapes)` with `idx` just
past the closing quote.  The `step_by` may run past the end; that is caught by the next
`self.next()?`. -/
def scanString (buf : Bytes) (idx escapes : Nat) : Res (Nat × Nat) :=
  if h : idx < buf.length then
    let c := buf[idx]
    if c == 0x5C then
      match next buf (idx + 1) with
      | .ok nc =>
        if nc == 0x75 then
          match next buf (idx + 2) with
          | .ok nc2 =>
            if nc2 == 0x7B then scanString buf (idx + 2 + (C.UNICODE_LEN + 2)) (escapes + 1)
            else scanString buf (idx + 2 + C.UNICODE_LEN) (escapes + 1)
          | .err e => .err e
          | .panic s => .panic s
          | .fuel => .fuel
        else scanString buf (idx + 2) (escapes + 1)
      | .err e => .err e
      | .panic s => .panic s
      | .fuel => .fuel
    else if c == 0x22 then .ok (idx + 1, escapes)
    else scanString buf (idx + 1) escapes
  else .err "InvalidEOF"
termination_by buf.length - idx
decreasing_by all_goals (first | omega | (simp only [C.UNICODE_LEN]; omega))

def parseJsonString (buf : Bytes) (idx : Nat) : Res (JV × Nat) := do
  let startIdx ← mustIs buf idx 0x22
  let (idx, escapes) ← scanString buf startIdx 0
  let e ← subUsize "parse_json_string: self.idx - 1" idx 1
  let data ← slice "parse_json_string: buf[start_idx..idx-1]" buf startIdx e
  if escapes > 0 then do
    let l1 ← subUsize "parse_json_string: idx - 1 - start_idx" e startIdx
    let _len ← subUsize "parse_json_string: idx - 1 - start_idx - escapes" l1 escapes
    let s ← parseString data
    pure (.str s, idx)
  else if validUtf8 data then pure (.str data, idx)
  else .err "InvalidStringValue"

/-! ### Values, arrays, objects -/

def isString : JV → Bool
  | .str _ => true
  | _ => false

/-- `key.as_str().unwrap()` -/
def asStrUnwrap : JV → Res Bytes
  | .str s => .ok s
  | _ => .panic "parse_json_object: key.as_str().unwrap()"

mutual
/-- `parse_json_value`; returns the value and the cursor -/
def parseJsonValue : Nat → Bytes → Nat → Res (JV × Nat)
  | 0, _, _ => .fuel
  | fuel + 1, buf, idx => do
    let idx ← skipUnused buf idx
    let c ← next buf idx
    if c == 0x6E then do
      let idx ← mustAll buf idx [0x6E, 0x75, 0x6C, 0x6C]
      pure (.null, idx)
    else if c == 0x74 then do
      let idx ← mustAll buf idx [0x74, 0x72, 0x75, 0x65]
      pure (.bool true, idx)
    else if c == 0x66 then do
      let idx ← mustAll buf idx [0x66, 0x61, 0x6C, 0x73, 0x65]
      pure (.bool false, idx)
    else if isDigit c || c == 0x2D then parseNumber buf idx
    else if c == 0x22 then parseJsonString buf idx
    else if c == 0x5B then do
      let idx ← mustIs buf idx 0x5B
      arrLoop fuel buf idx true []
    else if c == 0x7B then do
      let idx ← mustIs buf idx 0x7B
      objLoop fuel buf idx true []
    else .err "ExpectedSomeValue"
/-- the `loop` of `parse_json_array` -/
def arrLoop : Nat → Bytes → Nat → Bool → List JV → Res (JV × Nat)
  | 0, _, _, _, _ => .fuel
  | fuel + 1, buf, idx, first, values => do
    let idx ← skipUnused buf idx
    let c ← next buf idx
    if c == 0x5D then pure (.arr values, idx + 1)
    else if !first && c != 0x2C then .err "ExpectedArrayCommaOrEnd"
    else do
      let idx := if first then idx else idx + 1
      let (value, idx) ← parseJsonValue fuel buf idx
      arrLoop fuel buf idx false (values ++ [value])
/-- the `loop` of `parse_json_object` -/
def objLoop : Nat → Bytes → Nat → Bool → List (Bytes × JV) → Res (JV × Nat)
  | 0, _, _, _, _ => .fuel
  | fuel + 1, buf, idx, first, obj => do
    let idx ← skipUnused buf idx
    let c ← next buf idx
    if c == 0x7D then pure (.obj obj, idx + 1)
    else if !first && c != 0x2C then .err "ExpectedObjectCommaOrEnd"
    else do
      let idx := if first then idx else idx + 1
      let (key, idx) ← parseJsonValue fuel buf idx
      if !isString key then .err "KeyMustBeAString"
      else do
        let idx ← skipUnused buf idx
        let c ← next buf idx
        if c != 0x3A then .err "ExpectedColon"
        else do
          let (value, idx) ← parseJsonValue fuel buf (idx + 1)
          let k ← asStrUnwrap key
          objLoop fuel buf idx false (insertKV k value obj)
end

/-- fuel that is always enough (`parseValue_fuel`) -/
def fuelFor (buf : Bytes) : Nat := 2 * buf.length + 2

end JP

/-- `parse_value` = `Parser::new(buf).parse()` -/
def parseValue (buf : Bytes) : Res JV := do
  let (val, idx) ← JP.parseJsonValue (JP.fuelFor buf) buf 0
  let idx ← JP.skipUnused buf idx
  if idx < buf.length then .err "UnexpectedTrailingCharacters" else pure val

end Jsonb
