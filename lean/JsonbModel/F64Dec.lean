/-
Correctly rounded decimal → binary64 conversion: what `fast_float2::parse`, `str::parse::<f64>`
and nom's `double` compute for a literal  ±digits × 10^exp10.  Exact big-`Nat` arithmetic,
round-to-nearest, ties-to-even; subnormals; overflow to ±infinity.
-/
import JsonbModel.Num

namespace Jsonb.F64

/-- number of binary digits of `n` (0 for 0) -/
def bitLen (n : Nat) : Nat := if n = 0 then 0 else Nat.log2 n + 1

/-- number of decimal digits of `n` (1 for 0) -/
def decLen (n : Nat) : Nat := (Nat.toDigits 10 n).length

/-- `floor(N / D / 2^e)` and whether/what remains, for integer `e` (D > 0):
returns `(q, num, den)` with value/2^e = q + num/den, 0 ≤ num < den. -/
def scaledDiv (N D : Nat) (e : Int) : Nat × Nat × Nat :=
  if e ≥ 0 then
    let den := D * 2 ^ e.toNat
    (N / den, N % den, den)
  else
    let num := N * 2 ^ (-e).toNat
    (num / D, num % D, D)

/-- round `q + r/den` to nearest, ties to even -/
def roundRNE (q r den : Nat) : Nat :=
  if 2 * r > den then q + 1
  else if 2 * r = den then (if q % 2 = 1 then q + 1 else q)
  else q

def signBits (neg : Bool) : Nat := if neg then 9223372036854775808 else 0

/-- bits of the double nearest to `±(N / D)` (N, D > 0) -/
def ofRatio (neg : Bool) (N D : Nat) : Nat :=
  -- value ∈ [2^(k-1), 2^(k+1)) for k = bitLen N - bitLen D
  let k : Int := (bitLen N : Int) - (bitLen D : Int)
  -- want q = floor(value / 2^e) ∈ [2^52, 2^53): e ∈ {k-54, k-53, k-52}
  let e0 : Int := k - 53
  let (q0, _, _) := scaledDiv N D e0
  let e1 : Int := if q0 ≥ 9007199254740992 then e0 + 1 else if q0 < 4503599627370496 then e0 - 1 else e0
  let e : Int := if e1 < -1074 then -1074 else e1
  let (q, r, den) := scaledDiv N D e
  let m := roundRNE q r den
  -- carry out of the mantissa
  let (m, e) := if m ≥ 9007199254740992 then (m / 2, e + 1) else (m, e)
  if m < 4503599627370496 then
    -- subnormal (e = -1074) or zero
    signBits neg + m
  else if e + 1075 ≥ 2047 then signBits neg + posInf
  else signBits neg + (e + 1075).toNat * 4503599627370496 + (m - 4503599627370496)

/-- bits of the double nearest to `±digits × 10^exp10` -/
def ofDecimal (neg : Bool) (digits : Nat) (exp10 : Int) : Nat :=
  if digits = 0 then signBits neg
  else
    let nd : Int := decLen digits
    if exp10 + nd > 310 then signBits neg + posInf          -- ≥ 10^310 > f64::MAX
    else if exp10 + nd < -330 then signBits neg              -- < 10^-330 < half the least subnormal
    else if exp10 ≥ 0 then ofRatio neg (digits * 10 ^ exp10.toNat) 1
    else ofRatio neg digits (10 ^ (-exp10).toNat)

end Jsonb.F64
