/-
Semantics of the Rust constructs used by the phase-6b translation (`Generated/Translated6b.lean`, written by
`tools/rs2lean6b.py`): the JSON text parser of parser.rs and the string helpers of util.rs.  HAND-WRITTEN and
TRUSTED, like `RustPrelude.lean` … `RustPrelude3.lean` which it extends; the translator only maps syntax to
these names.

Conventions added to those of the earlier preludes (documented in tools/RS2LEAN.md):
* `while cond { .. }` / `loop { .. }` have no syntactic iteration bound: they run on `Rs.whileFuel <bound>`
  (RustPrelude2.lean) where the translator reads `<bound>` = `len + 1` of the buffer the loop consumes off the
  source.  The bound is NOT trusted: when it is exhausted the function answers the distinct outcome `Res.fuel`,
  and an agreement theorem `= model` can only be proved if that never happens (every iteration consumes at
  least one byte: shown in the proofs, not assumed);
* a `&[u8]` used as `std::io::Read` is a cursor: `read_exact(buf)` takes `buf.len()` bytes from the front and
  overwrites `buf` with them; fewer bytes is `Err(io::ErrorKind::UnexpectedEof)`, which `?` converts with the
  crate's `impl From<std::io::Error> for Error` (read from src/error.rs by the translator: `Rs.mapErr`).

First part: primitives defined from first principles.  Second part: standard-library / third-party routines
MAPPED to the model's transcription of them (`JsonParser.lean`), in the way `x as f64` is mapped to
`F64.ofIntRNE` (RustPreludeFloat.lean) and `std::str::from_utf8` to `validUtf8` (RustPrelude3Str.lean): an
agreement theorem about a function that calls one of them checks the structure around the call only.
Imports: RustPrelude3, RustPrelude3Str and the model's JsonParser.lean (for the mapped readers).
-/
import JsonbModel.RustPrelude3
import JsonbModel.RustPrelude3Str
import JsonbModel.JsonParser

namespace Jsonb.Rs

/-! ## First principles -/

/-- `s.get(i)` on bytes (copied out as a `u8` value) -/
def getByte (s : Bytes) (i : Int) : Option Int :=
  if i < 0 then none
  else match s[i.toNat]? with
    | some b => some (b.toNat : Int)
    | none => none

/-- `b.is_ascii_digit()` on a `u8`: `b'0'..=b'9'` -/
def isAsciiDigit (b : Int) : Bool := decide (48 ≤ b) && decide (b ≤ 57)

/-- `b.is_ascii_whitespace()` on a `u8`: space, `\t`, `\n`, form feed, `\r` (not vertical tab) -/
def isAsciiWhitespace (b : Int) : Bool :=
  decide (b = 32) || decide (b = 9) || decide (b = 10) || decide (b = 12) || decide (b = 13)

/-- `vec![x; n]` of `u8` -/
def bytesRepeat (x : Int) (n : Int) : Bytes := List.replicate n.toNat (u8 x)

/-- `cursor.read_exact(buf)` on a `&[u8]` cursor with `buf.len() = n`: the new content of `buf` and the advanced
cursor -/
def readExact (s : Bytes) (n : Int) : Res (Bytes × Bytes) :=
  if n.toNat ≤ s.length then .ok (s.take n.toNat, s.drop n.toNat) else .err "UnexpectedEof"

/-- `char::from_u32(n)`: a scalar value is below `0x110000` and not a surrogate -/
def charFromU32 (n : Int) : Option Nat :=
  if (0 ≤ n ∧ n < 0xD800) ∨ (0xE000 ≤ n ∧ n < 0x110000) then some n.toNat else none

/-- `char::from(b)` for a `u8` (`b.into()`): the scalar value `b` -/
def u8AsChar (b : Int) : Nat := b.toNat

/-! ## Mapped to the model (TRUSTED mappings, listed in tools/RS2LEAN.md) -/

/-- `s.parse::<u64>()` with the error value dropped (`if let Ok(v) = ..`): core::num's `FromStr` = the model's
`JP.parseU64` (optional `+`, decimal digits, range check) -/
def strParseU64 (s : Bytes) : Option Int := (JP.parseU64 s).map Int.ofNat

/-- `s.parse::<i64>()` with the error value dropped = the model's `JP.parseI64` -/
def strParseI64 (s : Bytes) : Option Int := JP.parseI64 s

/-- `fast_float2::parse::<f64, _>(s)` with the error value dropped, as a bit pattern = the model's `JP.parseFloat`
(`F64.ofDecimal` of the decomposed literal: correct rounding, overflow to ±inf) -/
def fastFloatParse (s : Bytes) : Option Nat := JP.parseFloat s

end Jsonb.Rs
