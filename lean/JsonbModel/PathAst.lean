/-
ASTs of the two small text languages of the crate:
* `keypath.rs`: `KeyPath`, `KeyPaths`;
* `jsonpath/path.rs`: `JsonPath`, `Path`, `Expr`, `PathValue`, `Index`, `ArrayIndex`, operators.
Strings (`Cow<str>`) are their UTF-8 bytes.  Also the canonical one-line printers of the
line protocol (test driver only; not the Rust `Display`, which is in `PathPrint.lean`).
No Mathlib.
-/
import JsonbModel.Num
import JsonbModel.KeyPath

namespace Jsonb

/-- `jsonpath::Index` -/
inductive Index where
  | index (n : Int)        -- Index::Index(i32)
  | last (n : Int)         -- Index::LastIndex(i32)
  deriving Repr, DecidableEq

/-- `jsonpath::ArrayIndex` -/
inductive ArrayIndex where
  | index (i : Index)
  | slice (s e : Index)
  deriving Repr, DecidableEq

/-- `jsonpath::PathValue` -/
inductive PathValue where
  | null
  | bool (b : Bool)
  | num (n : Num)
  | str (s : Bytes)
  deriving Repr, DecidableEq

/-- `jsonpath::BinaryOperator` -/
inductive BinOp where
  | and | or | eq | ne | lt | le | gt | ge
  deriving Repr, DecidableEq

/-- `jsonpath::UnaryArithmeticOperator` -/
inductive UnOp where
  | add | sub
  deriving Repr, DecidableEq

/-- `jsonpath::BinaryArithmeticOperator` -/
inductive ArithOp where
  | add | sub | mul | div | mod
  deriving Repr, DecidableEq

mutual
/-- `jsonpath::Path` -/
inductive Path where
  | root
  | current
  | dotWildcard
  | bracketWildcard
  | dotField (s : Bytes)
  | colonField (s : Bytes)
  | objectField (s : Bytes)
  | arrayIndices (is : List ArrayIndex)
  | arithmeticExpr (e : Expr)
  | filterExpr (e : Expr)
  | predicate (e : Expr)
/-- `jsonpath::Expr` (with `ArithmeticFunc` and `FilterFunc` inlined) -/
inductive Expr where
  | paths (ps : List Path)
  | value (v : PathValue)
  | binaryOp (op : BinOp) (l r : Expr)
  | arithUnary (op : UnOp) (e : Expr)          -- ArithmeticFunc::Unary
  | arithBinary (op : ArithOp) (l r : Expr)    -- ArithmeticFunc::Binary
  | existsFn (ps : List Path)                  -- FilterFunc::Exists
end

/-- `jsonpath::JsonPath { paths }` -/
abbrev JsonPath := List Path

instance : Inhabited Path := ⟨.root⟩
instance : Inhabited Expr := ⟨.paths []⟩

/-! ### Canonical line-protocol printers -/
namespace Canon

def hexDigit (n : Nat) : Char := if n < 10 then Char.ofNat (48 + n) else Char.ofNat (87 + n)

def hexOfBytes (bs : Bytes) : String :=
  if bs.isEmpty then "-" else
  String.ofList (bs.foldr (fun b acc => hexDigit (b.toNat / 16) :: hexDigit (b.toNat % 16) :: acc) [])

def hex16 (n : Nat) : String :=
  String.ofList ((List.range 16).map (fun i => hexDigit (n / 16 ^ (15 - i) % 16)))

def showIndex : Index → String
  | .index n => "n" ++ toString n
  | .last n => "l" ++ toString n

def showArrayIndex : ArrayIndex → String
  | .index i => "(i " ++ showIndex i ++ ")"
  | .slice s e => "(s " ++ showIndex s ++ " " ++ showIndex e ++ ")"

def showPathValue : PathValue → String
  | .null => "null"
  | .bool true => "true"
  | .bool false => "false"
  | .num (.uint n) => "U" ++ toString n
  | .num (.int i) => "I" ++ toString i
  | .num (.float b) => "D" ++ hex16 b
  | .str s => "S" ++ hexOfBytes s

def showBinOp : BinOp → String
  | .and => "and" | .or => "or" | .eq => "eq" | .ne => "ne"
  | .lt => "lt" | .le => "le" | .gt => "gt" | .ge => "ge"

def showUnOp : UnOp → String
  | .add => "add" | .sub => "sub"

def showArithOp : ArithOp → String
  | .add => "add" | .sub => "sub" | .mul => "mul" | .div => "div" | .mod => "mod"

mutual
def showPath : Path → String
  | .root => "(root)"
  | .current => "(cur)"
  | .dotWildcard => "(dotw)"
  | .bracketWildcard => "(brw)"
  | .dotField s => "(dot " ++ hexOfBytes s ++ ")"
  | .colonField s => "(col " ++ hexOfBytes s ++ ")"
  | .objectField s => "(objf " ++ hexOfBytes s ++ ")"
  | .arrayIndices is => "(idx" ++ String.join (is.map (fun a => " " ++ showArrayIndex a)) ++ ")"
  | .arithmeticExpr e => "(arith " ++ showExpr e ++ ")"
  | .filterExpr e => "(filt " ++ showExpr e ++ ")"
  | .predicate e => "(pred " ++ showExpr e ++ ")"
def showExpr : Expr → String
  | .paths ps => "(paths" ++ showPathsSp ps ++ ")"
  | .value v => "(val " ++ showPathValue v ++ ")"
  | .binaryOp op l r => "(bin " ++ showBinOp op ++ " " ++ showExpr l ++ " " ++ showExpr r ++ ")"
  | .arithUnary op e => "(un " ++ showUnOp op ++ " " ++ showExpr e ++ ")"
  | .arithBinary op l r => "(ar " ++ showArithOp op ++ " " ++ showExpr l ++ " " ++ showExpr r ++ ")"
  | .existsFn ps => "(exists" ++ showPathsSp ps ++ ")"
/-- every path preceded by one space -/
def showPathsSp : List Path → String
  | [] => ""
  | p :: ps => " " ++ showPath p ++ showPathsSp ps
end

def showJsonPath (ps : JsonPath) : String :=
  match ps with
  | [] => "-"
  | _ => (showPathsSp ps).drop 1 |>.toString

def showKeyPath : KeyPath → String
  | .index i => "i" ++ toString i
  | .quoted s => "q" ++ hexOfBytes s
  | .name s => "n" ++ hexOfBytes s

def showKeyPaths (ps : List KeyPath) : String :=
  match ps with
  | [] => "-"
  | _ => ",".intercalate (ps.map showKeyPath)

end Canon
end Jsonb
