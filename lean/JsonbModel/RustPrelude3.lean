/-
Semantics of the Rust constructs used by the phase-3 translation (`Generated/Translated3.lean`,
written by `tools/rs2lean3.py`): recursive functions, the `byteorder` cursor, `BTreeMap<String, _>`,
`Result` plumbing.  HAND-WRITTEN and TRUSTED, like `RustPrelude.lean` / `RustPrelude2.lean` which it
extends; the translator only maps syntax to these names.

Conventions added to those of the earlier preludes (documented in tools/RS2LEAN.md):
* recursion: every function of a declared recursive group takes `fuel : Nat` first, answers
  `Res.fuel` at `0`, and calls the members of its group with the predecessor (Lean's structural
  recursion checks this, nothing is trusted here); a function that calls a fuel-taking function
  takes `fuel` and passes it on.  An agreement theorem `= model` can only be proved for fuel that is
  never exhausted;
* a `&mut self` / `&mut x` function returning `Result<T, _>` returns `Res (T × final self × …)`: the
  final values exist on `Ok` only.  The translator accepts such a call only under `?`, `.unwrap()`
  or in return position, where an `Err` ends the caller as well, so the lost state is never read;
* `BTreeMap<String, V>` is the list of its entries in key order (`str`'s `Ord` = lexicographic on
  the UTF-8 bytes); `insert` replaces the value of an equal key, `iter` is the list;
* `&[u8]` as a `byteorder` reader is a cursor: `read_u32::<BigEndian>()` takes four bytes from the
  front; fewer than four is `Err(io::ErrorKind::UnexpectedEof)`, which `?` converts with the crate's
  `impl From<std::io::Error> for Error` (read from src/error.rs by the translator: `Rs.mapErr`).
Imports: RustPrelude2 only.
-/
import JsonbModel.RustPrelude2

namespace Jsonb.Rs

/-! ## `Result` plumbing -/

/-- `r.map_err(|_| Error::<e>)`, and the `From` conversion `?` applies to a foreign error -/
def mapErr {α : Type} (r : Res α) (e : String) : Res α :=
  match r with
  | .ok a => .ok a
  | .err _ => .err e
  | .panic s => .panic s
  | .fuel => .fuel

/-- `r.unwrap()` on a `Result` -/
def unwrapRes {α : Type} (r : Res α) : Res α :=
  match r with
  | .ok a => .ok a
  | .err _ => .panic "called `Result::unwrap()` on an `Err` value"
  | .panic s => .panic s
  | .fuel => .fuel

/-! ## Bytes -/

/-- `s.get(..b)` -/
def getTo (s : Bytes) (b : Int) : Option Bytes :=
  if 0 ≤ b ∧ b ≤ (s.length : Int) then some (s.take b.toNat) else none

/-- `cursor.read_u32::<BigEndian>()` on a `&[u8]` cursor: the value and the advanced cursor -/
def readU32BE (s : Bytes) : Res (Int × Bytes) :=
  if 4 ≤ s.length then .ok (fromBeBytes .u32 (s.take 4), s.drop 4) else .err "UnexpectedEof"

/-- `vec.write_u32::<BigEndian>(x)` on a `Vec<u8>`: appends, cannot fail -/
def writeU32BE (v : Bytes) (x : Int) : Bytes := v ++ toBeBytes .u32 x

/-- `v.push(x)` on a `Vec<T>` -/
def vecPush {α : Type} (v : List α) (x : α) : List α := v ++ [x]

/-! ## `BTreeMap<String, V>`: the entries in key order -/

/-- `Ord` of `str` / `String` / `[u8]`: lexicographic on the bytes, a proper prefix is smaller -/
def cmpBytes : Bytes → Bytes → Ordering
  | [], [] => .eq
  | [], _ :: _ => .lt
  | _ :: _, [] => .gt
  | a :: as, b :: bs =>
    if a.toNat < b.toNat then .lt else if b.toNat < a.toNat then .gt else cmpBytes as bs

/-- `BTreeMap::new()` -/
def btreeNew {β : Type} : List (Bytes × β) := []

/-- `m.insert(k, v)`: the value of an equal key is replaced, otherwise the entry is placed in key
order (the returned old value is never used by the translated code) -/
def btreeInsert {β : Type} (m : List (Bytes × β)) (k : Bytes) (v : β) : List (Bytes × β) :=
  match m with
  | [] => [(k, v)]
  | (k', v') :: rest =>
    match cmpBytes k k' with
    | .lt => (k, v) :: (k', v') :: rest
    | .eq => (k, v) :: rest
    | .gt => (k', v') :: btreeInsert rest k v

end Jsonb.Rs
