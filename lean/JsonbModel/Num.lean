/-
Numbers: `Number::{Int64,UInt64,Float64}`, the compact codec of number.rs
(`compact_encode`, `decode`) and the integer views.  Floats are bit patterns (`Nat < 2^64`);
Lean's opaque `Float` is never used.
-/
import JsonbModel.Generated.Constants
import JsonbModel.Base

namespace Jsonb

inductive Num where
  | int (i : Int)      -- Number::Int64
  | uint (n : Nat)     -- Number::UInt64
  | float (bits : Nat) -- Number::Float64, IEEE-754 binary64 bit pattern
  deriving Repr, DecidableEq

namespace F64
def expField (b : Nat) : Nat := b / 4503599627370496 % 2048      -- bits 52..62
def mantField (b : Nat) : Nat := b % 4503599627370496             -- bits 0..51
def signBit (b : Nat) : Bool := b / 9223372036854775808 % 2 == 1  -- bit 63
def isNaN (b : Nat) : Bool := expField b == 2047 && mantField b != 0
def posInf : Nat := 0x7FF0000000000000
def negInf : Nat := 0xFFF0000000000000
def canonNaN : Nat := 0x7FF8000000000000   -- bits of Rust `f64::NAN`
def isInf (b : Nat) : Bool := b == posInf || b == negInf
def isFinite (b : Nat) : Bool := expField b != 2047
end F64

namespace Num

def WF : Num → Prop
  | int i => -9223372036854775808 ≤ i ∧ i ≤ 9223372036854775807
  | uint n => n < 18446744073709551616
  | float b => b < 18446744073709551616

instance : (n : Num) → Decidable n.WF
  | int _ => by unfold WF; infer_instance
  | uint _ => by unfold WF; infer_instance
  | float _ => by unfold WF; infer_instance

/-- The two places the codec legitimately changes representation: `Int64(0)` is stored with
the shared zero tag and comes back as `UInt64(0)`; every NaN comes back as `f64::NAN`. -/
def norm : Num → Num
  | int i => if i = 0 then uint 0 else int i
  | uint n => uint n
  | float b => if F64.isNaN b then float F64.canonNaN else float b

/-- two's complement big-endian, `(v as iW).to_be_bytes()` -/
def beI (w : Nat) (i : Int) : Bytes := beN w (i % (256 ^ w : Nat)).toNat

/-- `iW::from_be_bytes(..) as i64` -/
def ofBeI (bs : Bytes) : Int :=
  let u := ofBe bs
  if 2 * u ≥ 256 ^ bs.length then (u : Int) - (256 ^ bs.length : Nat) else u

/-- `Number::compact_encode` -/
def enc : Num → Bytes
  | int i =>
    if i = 0 then [UInt8.ofNat C.NUMBER_ZERO]
    else UInt8.ofNat C.NUMBER_INT ::
      (if -128 ≤ i ∧ i ≤ 127 then beI 1 i
       else if -32768 ≤ i ∧ i ≤ 32767 then beI 2 i
       else if -2147483648 ≤ i ∧ i ≤ 2147483647 then beI 4 i
       else beI 8 i)
  | uint n =>
    if n = 0 then [UInt8.ofNat C.NUMBER_ZERO]
    else UInt8.ofNat C.NUMBER_UINT ::
      (if n ≤ 255 then beN 1 n
       else if n ≤ 65535 then beN 2 n
       else if n ≤ 4294967295 then beN 4 n
       else beN 8 n)
  | float b =>
    if F64.isNaN b then [UInt8.ofNat C.NUMBER_NAN]
    else if b = F64.posInf then [UInt8.ofNat C.NUMBER_INF]
    else if b = F64.negInf then [UInt8.ofNat C.NUMBER_NEG_INF]
    else UInt8.ofNat C.NUMBER_FLOAT :: beN 8 b

/-- `Number::decode` (after the `fix:` commit: every malformed shape is an error). -/
def dec (bs : Bytes) : Res Num :=
  match bs with
  | [] => .err "InvalidJsonbNumber"
  | t :: rest =>
    let ty := t.toNat
    let len := rest.length
    if ty = C.NUMBER_ZERO ∨ ty = C.NUMBER_NAN ∨ ty = C.NUMBER_INF ∨ ty = C.NUMBER_NEG_INF then
      if len ≠ 0 then .err "InvalidJsonbNumber"
      else if ty = C.NUMBER_ZERO then .ok (uint 0)
      else if ty = C.NUMBER_NAN then .ok (float F64.canonNaN)
      else if ty = C.NUMBER_INF then .ok (float F64.posInf)
      else .ok (float F64.negInf)
    else if ty = C.NUMBER_INT then
      if len = 1 ∨ len = 2 ∨ len = 4 ∨ len = 8 then .ok (int (ofBeI rest))
      else .err "InvalidJsonbNumber"
    else if ty = C.NUMBER_UINT then
      if len = 1 ∨ len = 2 ∨ len = 4 ∨ len = 8 then .ok (uint (ofBe rest))
      else .err "InvalidJsonbNumber"
    else if ty = C.NUMBER_FLOAT then
      if len = 8 then .ok (float (ofBe rest)) else .err "InvalidJsonbNumber"
    else .err "InvalidJsonbNumber"

/-- shortest width the README format allows for a number (1, 2, 3, 5 or 9 bytes) -/
def minWidth : Num → Nat
  | int i =>
    if i = 0 then 1 else if -128 ≤ i ∧ i ≤ 127 then 2 else if -32768 ≤ i ∧ i ≤ 32767 then 3
    else if -2147483648 ≤ i ∧ i ≤ 2147483647 then 5 else 9
  | uint n =>
    if n = 0 then 1 else if n ≤ 255 then 2 else if n ≤ 65535 then 3
    else if n ≤ 4294967295 then 5 else 9
  | float b => if F64.isNaN b ∨ b = F64.posInf ∨ b = F64.negInf then 1 else 9

/-- `Number::as_i64` -/
def asI64 : Num → Option Int
  | int i => some i
  | uint n => if n ≤ 9223372036854775807 then some n else none
  | float _ => none

/-- `Number::as_u64` -/
def asU64 : Num → Option Nat
  | int i => if i ≥ 0 then some i.toNat else none
  | uint n => some n
  | float _ => none

end Num
end Jsonb
