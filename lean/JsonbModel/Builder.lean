/-
Implementation model of builder.rs: `ArrayBuilder` / `ObjectBuilder` with `Entry::{Raw,
ArrayBuilder, ObjectBuilder}` and `build_into` (header, reserve the entry area at the current
end of the buffer, write payloads, patch each entry with the measured length).
-/
import JsonbModel.Ser

namespace Jsonb

inductive BEntry where
  | raw (ty len : Nat) (data : Bytes)       -- Entry::Raw(JEntry { type_code, length }, data)
  | arr (es : List BEntry)                   -- Entry::ArrayBuilder
  | obj (kvs : List (Bytes × BEntry))        -- Entry::ObjectBuilder (BTreeMap order)
  deriving Repr

/-- `BTreeMap<&str, Entry>::insert` on a sorted association list (last push wins) -/
def bInsert (k : Bytes) (v : BEntry) : List (Bytes × BEntry) → List (Bytes × BEntry)
  | [] => [(k, v)]
  | (k', v') :: rest =>
    match lexCmp k k' with
    | .lt => (k, v) :: (k', v') :: rest
    | .eq => (k, v) :: rest
    | .gt => (k', v') :: bInsert k v rest

mutual
/-- `write_entry` -/
def buildEntry (buf : Bytes) : BEntry → Res (Bytes × Nat × Nat)
  | .raw ty len data => .ok (buf ++ data, ty, len)
  | .arr es =>
    match buildArrLoop ((buf ++ u32be (headerWord C.ARRAY_CONTAINER_TAG es.length)) ++ zeros (es.length * 4))
        (buf.length + 4) (4 + es.length * 4) es with
    | .ok (buf, size) => .ok (buf, C.CONTAINER_TAG, size % 4294967296)
    | .err e => .err e
    | .panic s => .panic s
    | .fuel => .fuel
  | .obj kvs =>
    match buildObjKeys ((buf ++ u32be (headerWord C.OBJECT_CONTAINER_TAG kvs.length)) ++ zeros (kvs.length * 8))
        (buf.length + 4) (4 + kvs.length * 8) kvs with
    | .ok (buf, idx, len) =>
      (match buildObjVals buf idx len kvs with
       | .ok (buf, size) => .ok (buf, C.CONTAINER_TAG, size % 4294967296)
       | .err e => .err e
       | .panic s => .panic s
       | .fuel => .fuel)
    | .err e => .err e
    | .panic s => .panic s
    | .fuel => .fuel
def buildArrLoop (buf : Bytes) (idx acc : Nat) : List BEntry → Res (Bytes × Nat)
  | [] => .ok (buf, acc)
  | e :: es =>
    match buildEntry buf e with
    | .ok (buf, ty, len) =>
      (match replaceJentry buf (jentryWord ty len) idx with
       | .ok buf => buildArrLoop buf (idx + 4) (acc + len % 4294967296) es
       | .err e => .err e
       | .panic s => .panic s
       | .fuel => .fuel)
    | .err e => .err e
    | .panic s => .panic s
    | .fuel => .fuel
def buildObjVals (buf : Bytes) (idx acc : Nat) : List (Bytes × BEntry) → Res (Bytes × Nat)
  | [] => .ok (buf, acc)
  | (_, e) :: kvs =>
    match buildEntry buf e with
    | .ok (buf, ty, len) =>
      (match replaceJentry buf (jentryWord ty len) idx with
       | .ok buf => buildObjVals buf (idx + 4) (acc + len % 4294967296) kvs
       | .err e => .err e
       | .panic s => .panic s
       | .fuel => .fuel)
    | .err e => .err e
    | .panic s => .panic s
    | .fuel => .fuel
def buildObjKeys (buf : Bytes) (idx acc : Nat) : List (Bytes × BEntry) → Res (Bytes × Nat × Nat)
  | [] => .ok (buf, idx, acc)
  | (k, _) :: kvs =>
    match replaceJentry (buf ++ k) (jentryWord C.STRING_TAG k.length) idx with
    | .ok buf => buildObjKeys buf (idx + 4) (acc + k.length) kvs
    | .err e => .err e
    | .panic s => .panic s
    | .fuel => .fuel
end

/-- `ArrayBuilder::build_into(buf)`: the new buffer -/
def buildArrayInto (buf : Bytes) (es : List BEntry) : Res Bytes :=
  match buildEntry buf (.arr es) with
  | .ok (b, _, _) => .ok b
  | .err e => .err e
  | .panic s => .panic s
  | .fuel => .fuel

/-- `ObjectBuilder::build_into(buf)` -/
def buildObjectInto (buf : Bytes) (kvs : List (Bytes × BEntry)) : Res Bytes :=
  match buildEntry buf (.obj kvs) with
  | .ok (b, _, _) => .ok b
  | .err e => .err e
  | .panic s => .panic s
  | .fuel => .fuel

/-! ### what the builder must write (pure layout function over the same `|||` words) -/

mutual
/-- `(type, length-as-u32, payload)` of an entry -/
def bspec : BEntry → Nat × Nat × Bytes
  | .raw ty len data => (ty, len, data)
  | .arr es =>
    let p := u32be (headerWord C.ARRAY_CONTAINER_TAG es.length) ++ (bwordsL es ++ bpaysL es)
    (C.CONTAINER_TAG, (4 + es.length * 4 + bsizeL es) % 4294967296, p)
  | .obj kvs =>
    let p := u32be (headerWord C.OBJECT_CONTAINER_TAG kvs.length) ++
      (bkeyWords kvs ++ (bwordsK kvs ++ (bkeyBytes kvs ++ bpaysK kvs)))
    (C.CONTAINER_TAG, (4 + kvs.length * 8 + (bkeyBytes kvs).length + bsizeK kvs) % 4294967296, p)
def bwordsL : List BEntry → Bytes
  | [] => []
  | e :: es => u32be (jentryWord (bspec e).1 (bspec e).2.1) ++ bwordsL es
def bpaysL : List BEntry → Bytes
  | [] => []
  | e :: es => (bspec e).2.2 ++ bpaysL es
/-- sum of the measured lengths (each `jentry.length as usize`) -/
def bsizeL : List BEntry → Nat
  | [] => 0
  | e :: es => (bspec e).2.1 % 4294967296 + bsizeL es
def bwordsK : List (Bytes × BEntry) → Bytes
  | [] => []
  | (_, e) :: kvs => u32be (jentryWord (bspec e).1 (bspec e).2.1) ++ bwordsK kvs
def bpaysK : List (Bytes × BEntry) → Bytes
  | [] => []
  | (_, e) :: kvs => (bspec e).2.2 ++ bpaysK kvs
def bsizeK : List (Bytes × BEntry) → Nat
  | [] => 0
  | (_, e) :: kvs => (bspec e).2.1 % 4294967296 + bsizeK kvs
def bkeyWords : List (Bytes × BEntry) → Bytes
  | [] => []
  | (k, _) :: kvs => u32be (jentryWord C.STRING_TAG k.length) ++ bkeyWords kvs
def bkeyBytes : List (Bytes × BEntry) → Bytes
  | [] => []
  | (k, _) :: kvs => k ++ bkeyBytes kvs
end

end Jsonb
