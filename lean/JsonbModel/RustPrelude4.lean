/-
Semantics of the Rust constructs used by the phase-4 translation (`Generated/Translated4.lean`,
written by `tools/rs2lean4.py`): `for` loops over the crate's own iterator structs, ordered sets and
maps keyed by `(JEntry, &[u8])` / `&str`.  HAND-WRITTEN and TRUSTED, like `RustPrelude.lean` …
`RustPrelude3.lean` which it extends; the translator only maps syntax to these names.

Conventions added to those of the earlier preludes (documented in tools/RS2LEAN.md):
* `for x in it { body }` where `it` is a value of a type with a translated `impl Iterator` is the
  desugaring `loop { match it.next() { None => break, Some(x) => body } }`: `forIter`.  Nothing
  bounds the number of calls of `next` syntactically, so the loop takes the function's explicit
  `fuel : Nat` and ends the function with the distinct outcome `Res.fuel` when it is exhausted — an
  agreement theorem can only be proved when that never happens.  `it.enumerate()` pairs every
  item with a running count from 0 (`forIterEnum`; the `usize` counter cannot overflow before the
  loop has run 2^64 times and is a natural number here);
* `BTreeSet<K>` / `BTreeMap<K, V>` are the lists of their elements / entries in strictly increasing
  key order; the order is passed explicitly (`cmp : K → K → Ordering`, the derived `Ord` of the key
  type spelled out by the translator: lexicographic on tuples and struct fields, `compare` on
  integers, `Rs.cmpBytes` on `&[u8]` / `&str`).
Imports: RustPrelude3 only.
-/
import JsonbModel.RustPrelude3

namespace Jsonb.Rs

/-! ## `for` over an iterator struct -/

/-- `for x in it { body }`: `next` is the translated `Iterator::next` of the struct (`&mut self`:
the advanced iterator is returned next to the item) -/
def forIter {ρ σ ι α : Type} (fuel : Nat) (next : ι → Res (Option α × ι)) (it : ι) (init : σ)
    (body : α → σ → Ctl ρ (Step σ)) : Ctl ρ σ :=
  match fuel with
  | 0 => .ret .fuel
  | n + 1 =>
    match next it with
    | .ok (none, _) => .val init
    | .ok (some x, it') =>
      (match body x init with
       | .val (.next s') => forIter n next it' s' body
       | .val (.done s') => .val s'
       | .ret r => .ret r)
    | .err e => .ret (.err e)
    | .panic p => .ret (.panic p)
    | .fuel => .ret .fuel

/-- `for (i, x) in it.enumerate() { body }`, the count starting at `i` -/
def forIterEnumFrom {ρ σ ι α : Type} (fuel : Nat) (next : ι → Res (Option α × ι)) (i : Nat) (it : ι)
    (init : σ) (body : (Int × α) → σ → Ctl ρ (Step σ)) : Ctl ρ σ :=
  match fuel with
  | 0 => .ret .fuel
  | n + 1 =>
    match next it with
    | .ok (none, _) => .val init
    | .ok (some x, it') =>
      (match body ((i : Int), x) init with
       | .val (.next s') => forIterEnumFrom n next (i + 1) it' s' body
       | .val (.done s') => .val s'
       | .ret r => .ret r)
    | .err e => .ret (.err e)
    | .panic p => .ret (.panic p)
    | .fuel => .ret .fuel

/-- `for (i, x) in it.enumerate() { body }` -/
def forIterEnum {ρ σ ι α : Type} (fuel : Nat) (next : ι → Res (Option α × ι)) (it : ι) (init : σ)
    (body : (Int × α) → σ → Ctl ρ (Step σ)) : Ctl ρ σ :=
  forIterEnumFrom fuel next 0 it init body

/-! ## `Result` / `Option<VecDeque>` plumbing -/

/-- the scrutinee of `match r { Ok(v) => …, Err(_) => … }`: `Some(v)` / `None` (the error value is
not used by the arm); a panic stays a panic -/
def resOpt {ρ α : Type} (r : Res α) : Ctl ρ (Option α) :=
  match r with
  | .ok a => .val (some a)
  | .err _ => .val none
  | .panic s => .ret (.panic s)
  | .fuel => .ret .fuel

/-- `q.pop_front()` as a value: the element (or `None`) and the queue afterwards -/
def popFrontOpt {α : Type} (q : List α) : Option α × List α :=
  match q with
  | [] => (none, [])
  | x :: rest => (some x, rest)

/-! ## `BTreeSet<K>` / `BTreeMap<K, V>`: elements / entries in strictly increasing key order -/

/-- the derived `Ord` of a pair (and, nested, of a tuple): lexicographic -/
def cmpLex {α β : Type} (ca : α → α → Ordering) (cb : β → β → Ordering) (x y : α × β) : Ordering :=
  (ca x.1 y.1).then (cb x.2 y.2)

/-- `BTreeSet::new()` -/
def setNew {κ : Type} : List κ := []

/-- `s.contains(&k)` -/
def setContains {κ : Type} (cmp : κ → κ → Ordering) (s : List κ) (k : κ) : Bool :=
  match s with
  | [] => false
  | x :: rest =>
    match cmp k x with
    | .lt => false
    | .eq => true
    | .gt => setContains cmp rest k

/-- `s.insert(k)`: an equal element stays, otherwise `k` is placed in order (the returned flag is
never used by the translated code) -/
def setInsert {κ : Type} (cmp : κ → κ → Ordering) (s : List κ) (k : κ) : List κ :=
  match s with
  | [] => [k]
  | x :: rest =>
    match cmp k x with
    | .lt => k :: x :: rest
    | .eq => x :: rest
    | .gt => x :: setInsert cmp rest k

/-- `BTreeMap::new()` -/
def mapNew {κ β : Type} : List (κ × β) := []

/-- the value at a key: `m.get(&k)`, and what `m.get_mut(&k)` points to -/
def mapGet {κ β : Type} (cmp : κ → κ → Ordering) (m : List (κ × β)) (k : κ) : Option β :=
  match m with
  | [] => none
  | (k', v) :: rest =>
    match cmp k k' with
    | .lt => none
    | .eq => some v
    | .gt => mapGet cmp rest k

/-- `m.contains_key(&k)` -/
def mapContains {κ β : Type} (cmp : κ → κ → Ordering) (m : List (κ × β)) (k : κ) : Bool :=
  (mapGet cmp m k).isSome

/-- `m.insert(k, v)`, and an assignment through `m.get_mut(&k)`: the value of an equal key is replaced
(the stored key stays), otherwise the entry is placed in key order -/
def mapInsert {κ β : Type} (cmp : κ → κ → Ordering) (m : List (κ × β)) (k : κ) (v : β) : List (κ × β) :=
  match m with
  | [] => [(k, v)]
  | (k', v') :: rest =>
    match cmp k k' with
    | .lt => (k, v) :: (k', v') :: rest
    | .eq => (k', v) :: rest
    | .gt => (k', v') :: mapInsert cmp rest k v

end Jsonb.Rs
