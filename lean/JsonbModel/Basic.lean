def hello := "world"
