/-
Semantics of the Rust constructs used by the phase-6c translation (`Generated/Translated6c.lean`, written by
`tools/rs2lean6c.py`): the renderer, the serde bridge and the remaining editors of functions.rs.  HAND-WRITTEN and
TRUSTED, like `RustPrelude.lean` … `RustPrelude5a.lean` which it extends; the translator only maps syntax to these
names.

`serde_json::Value`, `serde_json::Map<String, serde_json::Value>` and `serde_json::Number` are MAPPED to the model's
mirror type `SJ` of Functions/Serde.lean (the way `x as f64` is mapped to `F64.ofIntRNE`, `from_utf8` to `validUtf8`
and `Display for Number` to `Fn.numToString`): `Value` is `SJ`, a `Number` is an `SJ` built by `pos` / `neg` / `float`
(`Number::from(u64)` = `PosInt`, `Number::from(i64)` = `PosInt` for non-negative and `NegInt` for negative values,
`Number::from_f64` = `Float`, refused for non-finite values), a `Map` is the insertion-ordered association list of
the `preserve_order` feature (`insert` replaces the value of an existing key in place, else appends: `SJ.insert`).  An
agreement theorem about a function that builds such values checks the structure around these constructors only.
-/
import JsonbModel.RustPrelude4
import JsonbModel.RustPrelude3Str
import JsonbModel.Functions.Serde

namespace Jsonb.Rs

/-- `vec![b; n]` of bytes: `n` copies (`capacity overflow` above `isize::MAX` bytes) -/
def vecRepeat (b : Int) (n : Int) : Res Bytes :=
  if n ≤ IntTy.isize.maxVal then .ok (List.replicate n.toNat (u8 b)) else .panic "capacity overflow"

/-- `String::from_utf8(v)`: the same bytes as a `String`, or `Err(FromUtf8Error)` — MAPPED to the model's
`validUtf8`, exactly as `std::str::from_utf8` is in RustPrelude3Str.lean -/
def stringFromUtf8 (bs : Bytes) : Res Bytes := if validUtf8 bs then .ok bs else .err "FromUtf8Error"

/-- `pairs.into_iter().collect::<BTreeMap<String, V>>()`: the pairs inserted in order into the key-sorted entry list
(`Rs.btreeInsert` of RustPrelude3.lean: the value of an equal key is replaced, the last one wins) -/
def btreeCollect {β : Type} (pairs : List (Bytes × β)) : List (Bytes × β) :=
  pairs.foldl (fun m kv => btreeInsert m kv.1 kv.2) btreeNew

/-! ## `serde_json` values as the model's mirror `SJ` (a MAPPING, see the header) -/

/-- `serde_json::Value::Null` -/
def sjNull : SJ := .null
/-- `serde_json::Value::Bool(b)` -/
def sjBool (b : Bool) : SJ := .bool b
/-- `serde_json::Value::Number(n)` -/
def sjNumber (n : SJ) : SJ := n
/-- `serde_json::Value::String(s)` -/
def sjString (s : Bytes) : SJ := .str s
/-- `serde_json::Value::Array(v)` -/
def sjArray (v : List SJ) : SJ := .arr v
/-- `serde_json::Value::Object(m)` -/
def sjObject (m : List (Bytes × SJ)) : SJ := .obj m
/-- `serde_json::Number::from(v)` for `v : i64` -/
def sjNumberFromI64 (v : Int) : SJ := if v ≥ 0 then .pos v.toNat else .neg v
/-- `serde_json::Number::from(v)` for `v : u64` -/
def sjNumberFromU64 (v : Int) : SJ := .pos v.toNat
/-- `serde_json::Number::from_f64(v)`: `None` for NaN and the infinities -/
def sjNumberFromF64 (bits : Nat) : Option SJ := if F64.isFinite bits then some (.float bits) else none
/-- `serde_json::Map::with_capacity(n)` (allocation failure is not modelled) -/
def sjMapWithCapacity (_ : Int) : List (Bytes × SJ) := []
/-- `m.insert(k, v)` on the insertion-ordered map (the returned old value is never used by the translated code) -/
def sjMapInsert (m : List (Bytes × SJ)) (k : Bytes) (v : SJ) : List (Bytes × SJ) := SJ.insert k v m

end Jsonb.Rs
