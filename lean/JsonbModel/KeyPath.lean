/- `keypath::KeyPath` (mirror). -/
import JsonbModel.Base
namespace Jsonb
inductive KeyPath where
  | index (i : Int)        -- KeyPath::Index(i32)
  | quoted (s : Bytes)     -- KeyPath::QuotedName
  | name (s : Bytes)       -- KeyPath::Name
  deriving Repr, DecidableEq
end Jsonb
