/-
Spec layer: the documented order on documents, value equality, and PostgreSQL-style containment.
-/
import JsonbModel.Value
import JsonbModel.NumOrd
import JsonbModel.Spec.Access

namespace Jsonb.Spec
open JV

/-- documented ranking of kinds: Null > Array > Object > String > Number > true > false -/
def rank : JV → Nat
  | null => 7
  | arr _ => 6
  | obj _ => 5
  | str _ => 4
  | num _ => 3
  | JV.bool true => 2
  | JV.bool false => 1

mutual
/-- the documented comparison: different kinds by rank; arrays element by element then by
length; objects key, then value, pair by pair in key order, then by size; strings bytewise;
numbers by exact numeric value (NaN greatest) -/
def cmpJV : JV → JV → Ordering
  | null, null => .eq
  | JV.bool a, JV.bool b => compare (rank (JV.bool a)) (rank (JV.bool b))
  | num a, num b => Num.cmp a b
  | str a, str b => lexCmp a b
  | arr a, arr b => cmpL a b
  | obj a, obj b => cmpK a b
  | a, b => compare (rank a) (rank b)
def cmpL : List JV → List JV → Ordering
  | [], [] => .eq
  | [], _ :: _ => .lt
  | _ :: _, [] => .gt
  | a :: as, b :: bs =>
    match cmpJV a b with
    | .eq => cmpL as bs
    | o => o
def cmpK : List (Bytes × JV) → List (Bytes × JV) → Ordering
  | [], [] => .eq
  | [], _ :: _ => .lt
  | _ :: _, [] => .gt
  | (ka, a) :: as, (kb, b) :: bs =>
    match lexCmp ka kb with
    | .eq =>
      (match cmpJV a b with
       | .eq => cmpK as bs
       | o => o)
    | o => o
end

mutual
/-- equality as JSON values: same shape, strings and key sets; numbers by numeric value across
the integer and float encodings -/
def valEq : JV → JV → Bool
  | null, null => true
  | JV.bool a, JV.bool b => a == b
  | num a, num b => Num.cmp a b == .eq
  | str a, str b => a == b
  | arr a, arr b => valEqL a b
  | obj a, obj b => valEqK a b
  | _, _ => false
def valEqL : List JV → List JV → Bool
  | [], [] => true
  | a :: as, b :: bs => valEq a b && valEqL as bs
  | _, _ => false
def valEqK : List (Bytes × JV) → List (Bytes × JV) → Bool
  | [], [] => true
  | (ka, a) :: as, (kb, b) :: bs => ka == kb && valEq a b && valEqK as bs
  | _, _ => false
end

def isScalarJ : JV → Bool
  | arr _ => false
  | obj _ => false
  | _ => true

def sameKind : JV → JV → Bool
  | null, null => true
  | JV.bool _, JV.bool _ => true
  | num _, num _ => true
  | str _, str _ => true
  | arr _, arr _ => true
  | obj _, obj _ => true
  | _, _ => false

mutual
/-- PostgreSQL `@>`: an object contains an object whose every member it contains under the same
key; an array contains an array whose every element is matched by some element (scalars by
equality, containers by containment); a top-level array also contains a bare scalar equal to
one of its elements; scalars contain only equals.  `top` = at the top level. -/
def containsJV : Nat → Bool → JV → JV → Bool
  | 0, _, _, _ => false
  | fuel+1, top, l, r =>
    match l, r with
    | arr ls, arr rs => containsAll fuel ls rs
    | obj lk, obj rk => containsMembers fuel lk rk
    | arr ls, r => top && isScalarJ r && ls.any (fun x => valEq x r)
    | l, r => isScalarJ l && isScalarJ r && valEq l r
def containsAll : Nat → List JV → List JV → Bool
  | 0, _, _ => false
  | _+1, _, [] => true
  | fuel+1, ls, r :: rs =>
    (if isScalarJ r then ls.any (fun x => valEq x r)
     else containsSome fuel ls r) && containsAll fuel ls rs
def containsSome : Nat → List JV → JV → Bool
  | 0, _, _ => false
  | _+1, [], _ => false
  | fuel+1, l :: ls, r => (!isScalarJ l && containsJV fuel false l r) || containsSome fuel ls r
def containsMembers : Nat → List (Bytes × JV) → List (Bytes × JV) → Bool
  | 0, _, _ => false
  | _+1, _, [] => true
  | fuel+1, lk, (k, r) :: rk =>
    (match lookup k lk with
     | some l => sameKind l r && (if isScalarJ r then valEq l r else containsJV fuel false l r)
     | none => false) && containsMembers fuel lk rk
end

mutual
def sizeJ : JV → Nat
  | arr vs => 1 + sizeL vs
  | obj kvs => 1 + sizeK kvs
  | _ => 1
def sizeL : List JV → Nat
  | [] => 0
  | v :: vs => sizeJ v + sizeL vs
def sizeK : List (Bytes × JV) → Nat
  | [] => 0
  | (_, v) :: kvs => sizeJ v + sizeK kvs
end

def contains (l r : JV) : Bool := containsJV (2 * (sizeJ l + sizeJ r) + 4) true l r

end Jsonb.Spec
