/-
Spec layer: the RELAXED JSON text language = RFC 8259 + exactly the relaxations that the
crate's change log and tests establish, written independently of the crate's parser in the style
of `Spec/StrictJson.lean` (structural / fuel recursion over the remaining input).

`Relaxed.parse : Bytes → Option JV` accepts a byte string iff it is an RFC 8259 document in which
additionally

(a) WHITE SPACE between tokens may also be
      * a form feed byte (0x0C),
      * the two-character text  `\n`, `\r` or `\t`   (a backslash followed by the LETTER n, r, t),
      * the four-character text `\x0C`               (backslash, `x`, `0`, upper-case `C`);
    nothing else: not `\f`, not `\b`, not `\x0c` (lower case), not `\ `, not a vertical tab,
    not U+00A0, not a NUL byte, not a byte order mark;
(b) STRINGS may contain raw control characters (bytes < 0x20) — they are kept as they are;
(c) `\u{XXXX}` is accepted wherever `\uXXXX` is: EXACTLY four hex digits between the braces
    (`\u{41}`, `\u{}`, `\u{1F600}` are rejected);
(d) an UNPAIRED SURROGATE escape is kept as the six characters `\uXXXX` (digits as written,
    braces dropped):
      * a low surrogate escape that is not the second half of a pair,
      * a high surrogate escape that is not directly followed by another `\u` escape;
    and — this is what the code does, see "quirk" below — a high surrogate escape that IS
    directly followed by a `\u` escape which is not a low surrogate: then BOTH escapes are kept
    as literal text (the second one is not decoded, even if it denotes an ordinary character,
    and is not considered as the first half of a later pair);
(e) NUMBERS have the RFC 8259 grammar unchanged; an integer literal that fits `u64` (`i64` with
    a minus sign) is exact, every other literal is the nearest double, beyond the double range
    ±infinity (this is already what `Strict.number` does, so it is reused).

and NOTHING else: no trailing commas, no leading zeros, no leading `+`, no `.5`, no `1.`, no hex
numbers, no `NaN`/`Infinity`, no single quotes, no unquoted keys, no comments, no other escapes
(`\x41`, `\a`, `\'`, `\U0041`), no invalid UTF-8 inside strings, nothing but white space after
the value.

Quirks of (d) that go beyond "an unpaired surrogate is kept literally" (accepted by the code,
util.rs `parse_escaped_string`; they do not enlarge the accepted LANGUAGE, only fix the meaning):
  * `"\uD800\u0041"`        ↦ the 12 characters `\uD800\u0041`   (not `\uD800A`)
  * `"\uD800\uD800\uDC00"`  ↦ the 18 characters as written       (the 2nd and 3rd are not paired)
  * `"\u{D800}"`            ↦ `\uD800`                            (braces are not kept)

Meaning: as in `Strict.parse` — objects are built with `mkObj` (sorted keys, the last duplicate
wins).

Fuel: `parse` runs `value` with `2 * length + 2` units (one per nesting level / element, exactly
the bound of the crate model's `fuelFor`); `RelaxedBound.lean` proves that `parse` coincides with
the crate's parser, whose fuel is proved adequate.
-/
import JsonbModel.Spec.StrictJson

namespace Jsonb.Relaxed

/-! ### (a) white space -/

/-- one-byte white space: RFC 8259 (space, tab, line feed, carriage return) + form feed -/
def isWs (b : UInt8) : Bool := Strict.isWs b || b == 0x0C

/-- length of the white-space token at the head of the input (`0` = none):
one white-space byte, `\n` `\r` `\t` spelled with a backslash, or `\x0C` -/
def wsTok : Bytes → Nat
  | [] => 0
  | b :: rest =>
    if isWs b then 1
    else if b == 0x5C then
      match rest with
      | [] => 0
      | c :: rest2 =>
        if c == 0x6E || c == 0x72 || c == 0x74 then 2
        else if c == 0x78 then
          match rest2 with
          | d :: e :: _ => if d == 0x30 && e == 0x43 then 4 else 0
          | _ => 0
        else 0
    else 0

/-- drop white-space tokens (fuel: one unit per token) -/
def skipWs : Nat → Bytes → Bytes
  | 0, bs => bs
  | fuel+1, bs => if wsTok bs = 0 then bs else skipWs fuel (bs.drop (wsTok bs))

/-- drop all leading white space -/
def ws (bs : Bytes) : Bytes := skipWs bs.length bs

/-! ### (b)(c)(d) strings -/

/-- the eight two-character escapes of RFC 8259 -/
def simpleEsc (e : UInt8) : Option UInt8 :=
  if e == 0x22 then some 0x22
  else if e == 0x5C then some 0x5C
  else if e == 0x2F then some 0x2F
  else if e == 0x62 then some 0x08
  else if e == 0x66 then some 0x0C
  else if e == 0x6E then some 0x0A
  else if e == 0x72 then some 0x0D
  else if e == 0x74 then some 0x09
  else none

/-- value of four hex digits -/
def hex4 (a b c d : UInt8) : Option Nat :=
  match Strict.hexVal a, Strict.hexVal b, Strict.hexVal c, Strict.hexVal d with
  | some w, some x, some y, some z => some (((w * 16 + x) * 16 + y) * 16 + z)
  | _, _, _, _ => none

/-- (c) what follows `\u`: four hex digits, bare or in braces.  Returns the four digits as
written, their value, and the rest. -/
def uDigits : Bytes → Option (Bytes × Nat × Bytes)
  | [] => none
  | x :: t =>
    if x == 0x7B then
      match t with
      | a :: b :: c :: d :: y :: rest =>
        if y == 0x7D then (hex4 a b c d).map (fun u => ([a, b, c, d], u, rest)) else none
      | _ => none
    else
      match t with
      | b :: c :: d :: rest => (hex4 x b c d).map (fun u => ([x, b, c, d], u, rest))
      | _ => none

/-- the input after a leading `\u`, if it starts with `\u` -/
def afterBsU : Bytes → Option Bytes
  | x :: y :: rest => if x == 0x5C && y == 0x75 then some rest else none
  | _ => none

/-- (d) an escape kept as literal text: backslash, `u`, the four digits as written -/
def litEsc (ds : Bytes) : Bytes := 0x5C :: 0x75 :: ds

def isHigh (u : Nat) : Prop := 0xD800 ≤ u ∧ u ≤ 0xDBFF
def isLow (u : Nat) : Prop := 0xDC00 ≤ u ∧ u ≤ 0xDFFF
instance (u : Nat) : Decidable (isHigh u) := by unfold isHigh; infer_instance
instance (u : Nat) : Decidable (isLow u) := by unfold isLow; infer_instance

/-- a `\u` escape with digits `ds` = code unit `u`, followed by `rest`: the bytes it denotes
and what remains -/
def afterU (ds : Bytes) (u : Nat) (rest : Bytes) : Option (Bytes × Bytes) :=
  if isLow u then some (litEsc ds, rest)                        -- (d) lone low surrogate
  else if isHigh u then
    match afterBsU rest with
    | none => some (litEsc ds, rest)                            -- (d) high, no escape follows
    | some rest2 =>
      match uDigits rest2 with
      | none => none
      | some (ds2, l, rest3) =>
        if isLow l then                                         -- RFC 8259 surrogate pair
          some (Strict.encodeUtf8 (0x10000 + (u - 0xD800) * 1024 + (l - 0xDC00)), rest3)
        else some (litEsc ds ++ litEsc ds2, rest3)              -- (d) quirk: both kept literally
  else some (Strict.encodeUtf8 u, rest)                         -- RFC 8259 BMP escape

/-- one escape sequence (the input starts after the backslash): the bytes it denotes and the
rest -/
def escape : Bytes → Option (Bytes × Bytes)
  | [] => none
  | e :: rest =>
    match simpleEsc e with
    | some c => some ([c], rest)
    | none =>
      if e == 0x75 then
        match uDigits rest with
        | none => none
        | some (ds, u, rest1) => afterU ds u rest1
      else none

/-- body of a string after the opening quote: decoded bytes and the rest after the closing
quote.  (b): every byte other than `"` and `\` stands for itself, control characters
included. -/
def strBody : Nat → Bytes → Option (Bytes × Bytes)
  | 0, _ => none
  | _, [] => none
  | fuel+1, b :: bs =>
    if b == 0x22 then some ([], bs)
    else if b == 0x5C then
      match escape bs with
      | none => none
      | some (out, rest) => (strBody fuel rest).map (fun (s, r) => (out ++ s, r))
    else (strBody fuel bs).map (fun (s, r) => (b :: s, r))

/-- a complete string token (input starts after the opening quote); the decoded bytes must be
valid UTF-8 -/
def string (bs : Bytes) : Option (Bytes × Bytes) :=
  match strBody (bs.length + 1) bs with
  | some (s, r) => if validUtf8 s then some (s, r) else none
  | none => none

/-! ### values -/

mutual
def value : Nat → Bytes → Option (JV × Bytes)
  | 0, _ => none
  | fuel+1, bs =>
    match ws bs with
    | [] => none
    | b :: rest =>
      if b == 0x6E then (Strict.expectLit [0x75, 0x6C, 0x6C] rest).map (fun r => (.null, r))
      else if b == 0x74 then (Strict.expectLit [0x72, 0x75, 0x65] rest).map (fun r => (.bool true, r))
      else if b == 0x66 then
        (Strict.expectLit [0x61, 0x6C, 0x73, 0x65] rest).map (fun r => (.bool false, r))
      -- (e) numbers: the RFC 8259 reader
      else if b == 0x2D || Strict.isDigit b then
        (Strict.number (b :: rest)).map (fun (n, r) => (.num n, r))
      else if b == 0x22 then (string rest).map (fun (s, r) => (.str s, r))
      else if b == 0x5B then
        match ws rest with
        | 0x5D :: r => some (.arr [], r)
        | _ => (elements fuel rest).map (fun (vs, r) => (.arr vs, r))
      else if b == 0x7B then
        match ws rest with
        | 0x7D :: r => some (.obj [], r)
        | _ => (members fuel rest).map (fun (kvs, r) => (.obj (mkObj kvs), r))
      else none
/-- one or more comma-separated values up to `]` -/
def elements : Nat → Bytes → Option (List JV × Bytes)
  | 0, _ => none
  | fuel+1, bs =>
    match value fuel bs with
    | none => none
    | some (v, r) =>
      match ws r with
      | 0x2C :: r' => (elements fuel r').map (fun (vs, r'') => (v :: vs, r''))
      | 0x5D :: r' => some ([v], r')
      | _ => none
/-- one or more comma-separated `"key" : value` up to `}` -/
def members : Nat → Bytes → Option (List (Bytes × JV) × Bytes)
  | 0, _ => none
  | fuel+1, bs =>
    match ws bs with
    | 0x22 :: r0 =>
      (match string r0 with
       | none => none
       | some (k, r1) =>
         (match ws r1 with
          | 0x3A :: r2 =>
            (match value fuel r2 with
             | none => none
             | some (v, r3) =>
               match ws r3 with
               | 0x2C :: r4 => (members fuel r4).map (fun (kvs, r5) => ((k, v) :: kvs, r5))
               | 0x7D :: r4 => some ([(k, v)], r4)
               | _ => none)
          | _ => none))
    | _ => none
end

/-- relaxed parse of a complete document: one value, then only white space -/
def parse (bs : Bytes) : Option JV :=
  match value (2 * bs.length + 2) bs with
  | some (v, r) => if (ws r).isEmpty then some v else none
  | none => none

end Jsonb.Relaxed
