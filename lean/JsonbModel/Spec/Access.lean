/-
Spec layer: what each read-only accessor means on the decoded tree.
-/
import JsonbModel.Value
import JsonbModel.KeyPath
import JsonbModel.Walk

namespace Jsonb.Spec
open JV

def lookup (name : Bytes) : List (Bytes × JV) → Option JV
  | [] => none
  | (k, v) :: kvs => if k == name then some v else lookup name kvs

def lookupIgnoreCase (name : Bytes) : List (Bytes × JV) → Option JV
  | [] => none
  | (k, v) :: kvs => if eqIgnoreAsciiCase name k then some v else lookupIgnoreCase name kvs

def arrayLength : JV → Option Nat
  | arr vs => some vs.length
  | _ => none

def getByIndex : JV → Nat → Option JV
  | arr vs, i => vs[i]?
  | _, _ => none

/-- exact match first, otherwise (if the flag is on) the first key in key order that matches
ignoring ASCII case -/
def getByName : JV → Bytes → Bool → Option JV
  | obj kvs, name, ic =>
    match lookup name kvs with
    | some v => some v
    | none => if ic then lookupIgnoreCase name kvs else none
  | _, _, _ => none

/-- sub-value by key path; negative indices count from the end -/
def getByKeypath : JV → List KeyPath → Option JV
  | v, [] => some v
  | arr vs, .index i :: ps =>
    let n : Int := vs.length
    if i > n ∨ n + i < 0 then none
    else match vs[(if i ≥ 0 then i else n + i).toNat]? with
      | some v => getByKeypath v ps
      | none => none
  | obj kvs, .name nm :: ps =>
    (match lookup nm kvs with
     | some v => getByKeypath v ps
     | none => none)
  | obj kvs, .quoted nm :: ps =>
    (match lookup nm kvs with
     | some v => getByKeypath v ps
     | none => none)
  | _, _ :: _ => none

def objectKeys : JV → Option JV
  | obj kvs => some (arr (kvs.map (fun kv => str kv.1)))
  | _ => none

def objectEach : JV → Option (List (Bytes × JV))
  | obj kvs => some kvs
  | _ => none

def arrayValues : JV → Option (List JV)
  | arr vs => some vs
  | _ => none

def typeOf : JV → String
  | null => C.TYPE_NULL
  | JV.bool _ => C.TYPE_BOOLEAN
  | num _ => C.TYPE_NUMBER
  | str _ => C.TYPE_STRING
  | arr _ => C.TYPE_ARRAY
  | obj _ => C.TYPE_OBJECT

def asNull : JV → Option Unit | null => some () | _ => none
def asBool : JV → Option Bool | JV.bool b => some b | _ => none
def asNumber : JV → Option Num | num n => some n | _ => none
def asStr : JV → Option Bytes | str s => some s | _ => none
def isArray : JV → Bool | arr _ => true | _ => false
def isObject : JV → Bool | obj _ => true | _ => false

def existsKey : JV → Bytes → Bool
  | obj kvs, k => kvs.any (fun kv => kv.1 == k)
  | arr vs, k => vs.any (fun v => match v with | str s => s == k | _ => false)
  | _, _ => false

def existsAllKeys (v : JV) (keys : List Bytes) : Bool := keys.all (fun k => validUtf8 k && existsKey v k)
def existsAnyKeys (v : JV) (keys : List Bytes) : Bool := keys.any (fun k => validUtf8 k && existsKey v k)

mutual
/-- some string value or object key anywhere in the document satisfies `p` -/
def anyString (p : Bytes → Bool) : JV → Bool
  | str s => p s
  | arr vs => anyStringL p vs
  | obj kvs => anyStringK p kvs
  | _ => false
def anyStringL (p : Bytes → Bool) : List JV → Bool
  | [] => false
  | v :: vs => anyString p v || anyStringL p vs
def anyStringK (p : Bytes → Bool) : List (Bytes × JV) → Bool
  | [] => false
  | (k, v) :: kvs => p k || anyString p v || anyStringK p kvs
end

end Jsonb.Spec
