/-
Spec layer: the documented meaning of a JSONPath on the decoded tree (lax mode, as the README
and the property describe it).  Items are sub-values of the document, in document order, with
repetitions where the path asks for them.
-/
import JsonbModel.Selector
import JsonbModel.Spec.Access

namespace Jsonb.Spec
open JV

def isScalarV : JV → Bool
  | arr _ => false
  | obj _ => false
  | _ => true

def toPathValue : JV → Option PathValue
  | null => some .null
  | JV.bool b => some (.bool b)
  | num n => some (.num n)
  | str s => some (.str s)
  | _ => none

/-- one non-filter step applied to one item -/
def stepItem (p : Path) (v : JV) : List JV :=
  match p, v with
  | .dotWildcard, obj kvs => kvs.map (·.2)
  | .dotWildcard, _ => []
  | .bracketWildcard, arr vs => vs
  | .bracketWildcard, w => [w]                       -- non-arrays pass through unchanged
  | .dotField nm, obj kvs => (lookup nm kvs).toList
  | .colonField nm, obj kvs => (lookup nm kvs).toList
  | .objectField nm, obj kvs => (lookup nm kvs).toList
  | .arrayIndices is, arr vs => (Sel.indicesOf is vs.length).filterMap (vs[·]?)
  | _, _ => []

mutual
/-- items selected by `paths`, starting from the root (or from the current item when the path
starts with `@`) -/
def evalPaths : Nat → JV → Option JV → List Path → Option (List JV)
  | 0, _, _, _ => none
  | fuel+1, root, cur, paths =>
    let start := match paths.head?, cur with
      | some .current, some c => c
      | _, _ => root
    evalSteps fuel root paths [start]
def evalSteps : Nat → JV → List Path → List JV → Option (List JV)
  | 0, _, _, _ => none
  | _+1, _, [], items => some items
  | fuel+1, root, p :: rest, items =>
    match p with
    | .root | .current => evalSteps fuel root rest items
    | .filterExpr e | .predicate e =>
      (match filterItems fuel root e items with
       | some items' => evalSteps fuel root rest items'
       | none => none)
    | _ => evalSteps fuel root rest (items.flatMap (stepItem p))
def filterItems : Nat → JV → Expr → List JV → Option (List JV)
  | 0, _, _, _ => none
  | _+1, _, _, [] => some []
  | fuel+1, root, e, v :: rest =>
    match evalFilter fuel root v e, filterItems fuel root e rest with
    | some keep, some r => some (if keep then v :: r else r)
    | _, _ => none
/-- a filter keeps an item when some pair of operand values satisfies the comparison;
`none` = the evaluator cannot handle the expression (an error, never a panic) -/
def evalFilter : Nat → JV → JV → Expr → Option Bool
  | 0, _, _, _ => none
  | fuel+1, root, item, e =>
    match e with
    | .binaryOp .or l r =>
      (match evalFilter fuel root item l, evalFilter fuel root item r with
       | some a, some b => some (a || b)
       | _, _ => none)
    | .binaryOp .and l r =>
      (match evalFilter fuel root item l, evalFilter fuel root item r with
       | some a, some b => some (a && b)
       | _, _ => none)
    | .binaryOp op l r =>
      (match operandValues fuel root item l, operandValues fuel root item r with
       | some ls, some rs =>
         some (ls.any (fun x => rs.any (fun y => match Sel.cmpOp op x y with | .ok b => b | _ => false)))
       | _, _ => none)
    | .existsFn paths => (evalPaths fuel root (some item) paths).map (fun l => !l.isEmpty)
    | _ => none
def operandValues : Nat → JV → JV → Expr → Option (List PathValue)
  | 0, _, _, _ => none
  | fuel+1, root, item, e =>
    match e with
    | .value v => some [v]
    | .paths paths => (evalPaths fuel root (some item) paths).map (fun l => l.filterMap toPathValue)
    | _ => none
end

end Jsonb.Spec
