/-
Spec layer: what each editing / set function means on the decoded tree.
-/
import JsonbModel.Spec.Access
import JsonbModel.Functions.Edit

namespace Jsonb.Spec
open JV

def isScalar : JV → Bool
  | arr _ => false
  | obj _ => false
  | _ => true

/-- objects merge with the right side winning; arrays append; anything else is wrapped -/
def concat : JV → JV → JV
  | obj l, obj r => obj (r.foldl (fun m kv => insertKV kv.1 kv.2 m) l)
  | arr l, arr r => arr (l ++ r)
  | l, arr r => arr (l :: r)
  | arr l, r => arr (l ++ [r])
  | l, r => arr [l, r]

def removeKey (name : Bytes) (kvs : List (Bytes × JV)) : List (Bytes × JV) :=
  kvs.filter (fun kv => kv.1 != name)

def deleteByName : JV → Bytes → Option JV
  | obj kvs, name => some (obj (removeKey name kvs))
  | arr vs, name => some (arr (vs.filter (fun v => match v with | str s => s != name | _ => true)))
  | _, _ => none     -- InvalidJsonType

/-- negative indices count from the end; out of range is a no-op -/
def deleteByIndex : JV → Int → Option JV
  | arr vs, i =>
    let n : Int := vs.length
    let idx := if i < 0 then n + i else i
    if idx < 0 ∨ idx ≥ n then some (arr vs) else some (arr (Fn.removeAt vs idx.toNat))
  | _, _ => none

/-- `none` = the path does not lead to something deletable: the document stays unchanged -/
def delKp : JV → List KeyPath → Option JV
  | _, [] => none
  | arr vs, .index i :: kp =>
    let n : Int := vs.length
    let idx := if i < 0 then n + i else i
    if idx < 0 ∨ idx ≥ n then none
    else if kp.isEmpty then some (arr (Fn.removeAt vs idx.toNat))
    else match vs[idx.toNat]? with
      | some w =>
        if isScalar w then none
        else (match delKp w kp with
              | some w' => some (arr (vs.set idx.toNat w'))
              | none => none)
      | none => none
  | obj kvs, .name nm :: kp => delKpObj kvs nm kp (delKp · kp)
  | obj kvs, .quoted nm :: kp => delKpObj kvs nm kp (delKp · kp)
  | _, _ :: _ => none
where
  delKpObj (kvs : List (Bytes × JV)) (nm : Bytes) (kp : List KeyPath) (rec : JV → Option JV) : Option JV :=
    if kp.isEmpty then some (obj (removeKey nm kvs))
    else match lookup nm kvs with
      | none => some (obj kvs)
      | some w =>
        if isScalar w then none
        else (match rec w with
              | some w' => some (obj (kvs.map (fun kv => if kv.1 == nm then (kv.1, w') else kv)))
              | none => none)

def deleteByKeypath : JV → List KeyPath → Option JV
  | arr vs, kp => some ((delKp (arr vs) kp).getD (arr vs))
  | obj kvs, kp => some ((delKp (obj kvs) kp).getD (obj kvs))
  | _, _ => none    -- InvalidJsonType

/-- positional insertion with clamping; a non-array target counts as a one-element list -/
def arrayInsert (v : JV) (pos : Int) (new : JV) : JV :=
  let vs := match v with | arr vs => vs | w => [w]
  let n : Int := vs.length
  let idx0 := if pos < 0 then n + pos else pos
  let idx : Nat := if idx0 < 0 then 0 else if idx0 > n then vs.length else idx0.toNat
  arr (vs.take idx ++ new :: vs.drop idx)

inductive InsErr | invalidObject | duplicateKey
  deriving Repr, DecidableEq

def objectInsert : JV → Bytes → JV → Bool → Except InsErr JV
  | obj kvs, key, new, update =>
    if (lookup key kvs).isSome && !update then .error .duplicateKey
    else .ok (obj (insertKV key new kvs))
  | _, _, _, _ => .error .invalidObject

def objectDelete : JV → List Bytes → Option JV
  | obj kvs, keys => some (obj (kvs.filter (fun kv => !keys.contains kv.1)))
  | _, _ => none
def objectPick : JV → List Bytes → Option JV
  | obj kvs, keys => some (obj (kvs.filter (fun kv => keys.contains kv.1)))
  | _, _ => none

mutual
/-- recursively drop object members whose value is null (array elements untouched) -/
def stripNulls : JV → JV
  | arr vs => arr (stripNullsL vs)
  | obj kvs => obj (stripNullsK kvs)
  | v => v
def stripNullsL : List JV → List JV
  | [] => []
  | v :: vs => stripNulls v :: stripNullsL vs
def stripNullsK : List (Bytes × JV) → List (Bytes × JV)
  | [] => []
  | (_, null) :: kvs => stripNullsK kvs
  | (k, v) :: kvs => (k, stripNulls v) :: stripNullsK kvs
end

def buildArray (items : List JV) : JV := arr items
def buildObject (items : List (Bytes × JV)) : JV := obj (mkObj items)

/-! ### set functions: elements are identical when they are the same JSON value in the same
number encoding, i.e. have the same entry word and payload -/

def same (a b : JV) : Bool := entry a == entry b

def elems : JV → List JV
  | arr vs => vs
  | v => [v]

def distinct : List JV → List JV → List JV
  | [], _ => []
  | x :: xs, seen => if seen.any (same x) then distinct xs seen else x :: distinct xs (x :: seen)

def removeFirst (x : JV) : List JV → Option (List JV)
  | [] => none
  | y :: ys => if same x y then some ys else (removeFirst x ys).map (y :: ·)

/-- `keep = true`: intersection (each element of xs as many times as it also occurs in ys);
`keep = false`: the rest -/
def interExcept (keep : Bool) : List JV → List JV → List JV
  | [], _ => []
  | x :: xs, ys =>
    match removeFirst x ys with
    | some ys' => if keep then x :: interExcept keep xs ys' else interExcept keep xs ys'
    | none => if keep then interExcept keep xs ys else x :: interExcept keep xs ys

def arrayDistinct (v : JV) : JV :=
  match v with
  | arr vs => arr (distinct vs [])
  | w => arr [w]
def arrayIntersection (a b : JV) : JV := arr (interExcept true (elems a) (elems b))
def arrayExcept (a b : JV) : JV := arr (interExcept false (elems a) (elems b))
def arrayOverlap (a b : JV) : Bool := (elems a).any (fun x => (elems b).any (same x))

end Jsonb.Spec
