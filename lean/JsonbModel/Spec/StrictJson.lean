/-
Spec layer: an independent STRICT RFC 8259 parser (no leniency: raw control characters,
unpaired surrogates, invalid UTF-8, leading zeros, trailing commas … are all rejected).
Used to judge the text `to_string` produces and to define the meaning of JSON text.
Numbers: an integer literal that fits u64 (or i64 when negative) is exact, anything else is the
nearest double.
-/
import JsonbModel.Value
import JsonbModel.De
import JsonbModel.F64Dec

namespace Jsonb.Strict

def isWs (b : UInt8) : Bool := b == 0x20 || b == 0x09 || b == 0x0A || b == 0x0D
def isDigit (b : UInt8) : Bool := 0x30 ≤ b && b ≤ 0x39

def skipWs : Bytes → Bytes
  | b :: bs => if isWs b then skipWs bs else b :: bs
  | [] => []

/-- UTF-8 encoding of a scalar value (no surrogates) -/
def encodeUtf8 (c : Nat) : Bytes :=
  if c < 0x80 then [UInt8.ofNat c]
  else if c < 0x800 then [UInt8.ofNat (0xC0 + c / 64), UInt8.ofNat (0x80 + c % 64)]
  else if c < 0x10000 then
    [UInt8.ofNat (0xE0 + c / 4096), UInt8.ofNat (0x80 + c / 64 % 64), UInt8.ofNat (0x80 + c % 64)]
  else
    [UInt8.ofNat (0xF0 + c / 262144), UInt8.ofNat (0x80 + c / 4096 % 64),
     UInt8.ofNat (0x80 + c / 64 % 64), UInt8.ofNat (0x80 + c % 64)]

def hexVal (b : UInt8) : Option Nat :=
  if 0x30 ≤ b && b ≤ 0x39 then some (b.toNat - 0x30)
  else if 0x61 ≤ b && b ≤ 0x66 then some (b.toNat - 0x61 + 10)
  else if 0x41 ≤ b && b ≤ 0x46 then some (b.toNat - 0x41 + 10)
  else none

def hex4 : Bytes → Option (Nat × Bytes)
  | a :: b :: c :: d :: rest =>
    match hexVal a, hexVal b, hexVal c, hexVal d with
    | some w, some x, some y, some z => some (((w * 16 + x) * 16 + y) * 16 + z, rest)
    | _, _, _, _ => none
  | _ => none

/-- body of a string after the opening quote: decoded bytes and the rest after the closing
quote.  Fuel = input length. -/
def strBody : Nat → Bytes → Option (Bytes × Bytes)
  | 0, _ => none
  | _, [] => none
  | fuel+1, b :: bs =>
    if b == 0x22 then some ([], bs)
    else if b < 0x20 then none
    else if b == 0x5C then
      match bs with
      | [] => none
      | e :: rest =>
        let simple (c : UInt8) := (strBody fuel rest).map (fun (s, r) => (c :: s, r))
        if e == 0x22 then simple 0x22
        else if e == 0x5C then simple 0x5C
        else if e == 0x2F then simple 0x2F
        else if e == 0x62 then simple 0x08
        else if e == 0x66 then simple 0x0C
        else if e == 0x6E then simple 0x0A
        else if e == 0x72 then simple 0x0D
        else if e == 0x74 then simple 0x09
        else if e == 0x75 then
          match hex4 rest with
          | none => none
          | some (u, rest) =>
            if 0xD800 ≤ u ∧ u ≤ 0xDBFF then
              -- a high surrogate must be followed by an escaped low surrogate
              match rest with
              | 0x5C :: 0x75 :: rest2 =>
                (match hex4 rest2 with
                 | some (l, rest3) =>
                   if 0xDC00 ≤ l ∧ l ≤ 0xDFFF then
                     (strBody fuel rest3).map (fun (s, r) =>
                       (encodeUtf8 (0x10000 + (u - 0xD800) * 1024 + (l - 0xDC00)) ++ s, r))
                   else none
                 | none => none)
              | _ => none
            else if 0xDC00 ≤ u ∧ u ≤ 0xDFFF then none
            else (strBody fuel rest).map (fun (s, r) => (encodeUtf8 u ++ s, r))
        else none
    else (strBody fuel bs).map (fun (s, r) => (b :: s, r))

def takeDigits : Bytes → Bytes × Bytes
  | b :: bs => if isDigit b then let (d, r) := takeDigits bs; (b :: d, r) else ([], b :: bs)
  | [] => ([], [])

def digitsVal (bs : Bytes) : Nat := bs.foldl (fun a b => a * 10 + (b.toNat - 48)) 0

/-- number per the RFC grammar; returns the value and the rest -/
def number (bs : Bytes) : Option (Num × Bytes) :=
  let (neg, r0) := match bs with
    | 0x2D :: r => (true, r)
    | _ => (false, bs)
  let (ip, r1) := takeDigits r0
  if ip.isEmpty then none
  else if ip.length > 1 && ip.head? == some 0x30 then none
  else
    let (fp, r2, hasF) : Bytes × Bytes × Bool := match r1 with
      | 0x2E :: t => let (d, r) := takeDigits t; (d, r, true)
      | _ => ([], r1, false)
    if hasF && fp.isEmpty then none
    else
      let expo : Option (Int × Bytes × Bool) := match r2 with
        | e :: t =>
          if e == 0x65 || e == 0x45 then
            let (eneg, t') := match t with
              | 0x2D :: u => (true, u)
              | 0x2B :: u => (false, u)
              | _ => (false, t)
            let (ed, r) := takeDigits t'
            if ed.isEmpty then none
            else some (if eneg then -(digitsVal ed : Int) else digitsVal ed, r, true)
          else some (0, r2, false)
        | [] => some (0, [], false)
      match expo with
      | none => none
      | some (ev, r3, hasE) =>
        if !hasF && !hasE then
          let v := digitsVal ip
          if !neg && v < 18446744073709551616 then some (.uint v, r3)
          else if neg && v ≤ 9223372036854775808 then some (.int (-(v : Int)), r3)
          else some (.float (F64.ofDecimal neg v 0), r3)
        else some (.float (F64.ofDecimal neg (digitsVal (ip ++ fp)) (ev - fp.length)), r3)

def expectLit (lit : Bytes) (bs : Bytes) : Option Bytes :=
  if lit.isPrefixOf bs then some (bs.drop lit.length) else none

mutual
def value : Nat → Bytes → Option (JV × Bytes)
  | 0, _ => none
  | fuel+1, bs =>
    match skipWs bs with
    | [] => none
    | b :: rest =>
      if b == 0x6E then (expectLit [0x75, 0x6C, 0x6C] rest).map (fun r => (.null, r))
      else if b == 0x74 then (expectLit [0x72, 0x75, 0x65] rest).map (fun r => (.bool true, r))
      else if b == 0x66 then (expectLit [0x61, 0x6C, 0x73, 0x65] rest).map (fun r => (.bool false, r))
      else if b == 0x22 then
        match strBody (rest.length + 1) rest with
        | some (s, r) => if validUtf8 s then some (.str s, r) else none
        | none => none
      else if b == 0x5B then
        match skipWs rest with
        | 0x5D :: r => some (.arr [], r)
        | _ => (elements fuel rest).map (fun (vs, r) => (.arr vs, r))
      else if b == 0x7B then
        match skipWs rest with
        | 0x7D :: r => some (.obj [], r)
        | _ => (members fuel rest).map (fun (kvs, r) => (.obj (mkObj kvs), r))
      else if b == 0x2D || isDigit b then (number (b :: rest)).map (fun (n, r) => (.num n, r))
      else none
/-- one or more comma-separated values up to `]` -/
def elements : Nat → Bytes → Option (List JV × Bytes)
  | 0, _ => none
  | fuel+1, bs =>
    match value fuel bs with
    | none => none
    | some (v, r) =>
      match skipWs r with
      | 0x2C :: r' => (elements fuel r').map (fun (vs, r'') => (v :: vs, r''))
      | 0x5D :: r' => some ([v], r')
      | _ => none
/-- one or more comma-separated `"key" : value` up to `}` -/
def members : Nat → Bytes → Option (List (Bytes × JV) × Bytes)
  | 0, _ => none
  | fuel+1, bs =>
    match skipWs bs with
    | 0x22 :: r0 =>
      (match strBody (r0.length + 1) r0 with
       | some (k, r1) =>
         if !validUtf8 k then none else
         (match skipWs r1 with
          | 0x3A :: r2 =>
            (match value fuel r2 with
             | none => none
             | some (v, r3) =>
               match skipWs r3 with
               | 0x2C :: r4 => (members fuel r4).map (fun (kvs, r5) => ((k, v) :: kvs, r5))
               | 0x7D :: r4 => some ([(k, v)], r4)
               | _ => none)
          | _ => none)
       | none => none)
    | _ => none
end

/-- strict parse of a complete document -/
def parse (bs : Bytes) : Option JV :=
  match value (bs.length + 2) bs with
  | some (v, r) => if (skipWs r).isEmpty then some v else none
  | none => none

/-- remove insignificant whitespace (outside strings) -/
def stripWs : Bool → Bytes → Bytes
  | _, [] => []
  | false, b :: bs => if isWs b then stripWs false bs else b :: stripWs (b == 0x22) bs
  | true, b :: bs =>
    if b == 0x5C then (match bs with | c :: r => b :: c :: stripWs true r | [] => [b])
    else b :: stripWs (b != 0x22) bs

end Jsonb.Strict
