/-
Semantics of the Rust constructs added by the phase-6a translation (`Generated/Translated6a.lean`, written by
`tools/rs2lean6a.py`): the JSONPath selector of src/jsonpath/selector.rs.  HAND-WRITTEN and TRUSTED, like the
earlier preludes it extends; the translator only maps syntax to these names.

Conventions added to those of the earlier preludes (documented in tools/RS2LEAN.md):
* the four `nom` combinators the selector's byte readers are written with (nom 7, `complete` flavour) are plain
  readers over a byte slice: a parser is a function `Bytes → Res (Bytes × α)` answering the REST of the input and
  the value; a recoverable nom error `Err(Err::Error(Error { input, code }))` is `Res.err "<ErrorKind>"`
  (`be_u32` and `take` on a short input: `Eof`).  The `?` operator converts it with the crate's
  `impl From<nom::Err<nom::error::Error<&[u8]>>> for Error`, read from src/error.rs by the translator (`Rs.mapErr`);
* `Box<T>` is `T`; `Vec<T>` / `VecDeque<T>` / `&[T]` are `List T` as before.
Imports: RustPrelude5b only.
-/
import JsonbModel.RustPrelude5b

namespace Jsonb.Rs

/-! ## nom readers -/

/-- `nom::number::complete::be_u32`: four bytes, big-endian, from the front; fewer is `ErrorKind::Eof` -/
def nomBeU32 (s : Bytes) : Res (Bytes × Int) :=
  if 4 ≤ s.length then .ok (s.drop 4, fromBeBytes .u32 (s.take 4)) else .err "Eof"

/-- `nom::combinator::map(p, f)` with a pure closure `f` -/
def nomMap {α β : Type} (p : Bytes → Res (Bytes × α)) (f : α → β) (s : Bytes) : Res (Bytes × β) :=
  match p s with
  | .ok (rest, a) => .ok (rest, f a)
  | .err e => .err e
  | .panic m => .panic m
  | .fuel => .fuel

/-- `n` applications of `p`, each on the rest left by the one before -/
def nomCountAux {α : Type} (p : Bytes → Res (Bytes × α)) : Nat → Bytes → Res (Bytes × List α)
  | 0, s => .ok (s, [])
  | n + 1, s =>
    match p s with
    | .ok (rest, a) =>
      (match nomCountAux p n rest with
       | .ok (rest', as) => .ok (rest', a :: as)
       | .err e => .err e
       | .panic m => .panic m
       | .fuel => .fuel)
    | .err e => .err e
    | .panic m => .panic m
    | .fuel => .fuel

/-- `nom::multi::count(p, n)`: the `n` values in order; the first failure is the failure of the whole (the
initial capacity of the result vector is capped by nom, so no `capacity overflow` for a forged count) -/
def nomCount {α : Type} (p : Bytes → Res (Bytes × α)) (n : Int) (s : Bytes) : Res (Bytes × List α) :=
  nomCountAux p n.toNat s

/-- `nom::bytes::complete::take(n)`: the first `n` bytes; fewer is `ErrorKind::Eof` -/
def nomTake (n : Int) (s : Bytes) : Res (Bytes × Bytes) :=
  if n.toNat ≤ s.length then .ok (s.drop n.toNat, s.take n.toNat) else .err "Eof"

/-! ## Lists -/

/-- `s.first()` on a slice of any element type (cloned / matched by the caller) -/
def firstOf {α : Type} (s : List α) : Option α := s.head?

/-- `s.iter().skip(n)` -/
def skip {α : Type} (s : List α) (n : Int) : List α := s.drop n.toNat

/-- `v[i]` on a `Vec<T>` / `&[T]`: panics when out of bounds -/
def indexVec {α : Type} (v : List α) (i : Int) : Res α :=
  if i < 0 then .panic "index out of bounds"
  else match v[i.toNat]? with
    | some a => .ok a
    | none => .panic "index out of bounds"

/-- `v.append(&mut w)`: the elements of `w` are moved to the end of `v` (the emptied `w` is never read again by the
translated code) -/
def vecAppend {α : Type} (v w : List α) : List α := v ++ w

/-- `q.truncate(n)` on a `VecDeque<T>` / `Vec<T>`: the first `n` elements -/
def truncate {α : Type} (q : List α) (n : Int) : List α := q.take n.toNat

/-- `o.expect(msg)` on an `Option` -/
def expect {α : Type} (o : Option α) (msg : String) : Res α :=
  match o with
  | some a => .ok a
  | none => .panic msg

end Jsonb.Rs
