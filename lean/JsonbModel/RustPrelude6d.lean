/-
Semantics of the Rust constructs used by the phase-6d translation (`Generated/Translated6d.lean`, written by
`tools/rs2lean6d.py`): the path parsers of jsonpath/parser.rs / keypath.rs and the `Display` impls of
jsonpath/path.rs / keypath.rs.  HAND-WRITTEN and TRUSTED, like `RustPrelude.lean` … `RustPrelude5a.lean` which it
extends; the translator only maps syntax to these names.

* A nom 7.1.3 combinator call is the definition of the same name of `JsonbModel/Nom.lean` (`alt((a, b, c))` =
  `Nom.alt a (Nom.alt b c)`, `tuple((a, b))` = `Nom.pair`, `tuple` of 3 / 4 = `Nom.tuple3` / `Nom.tuple4`, `char('c')` =
  `Nom.char <code>`, `tag("s")` = `Nom.tag (Rs.strLit "s")`, …): THAT mapping is the trusted part of this phase (listed
  in tools/RS2LEAN.md); `Err::Incomplete` does not exist for the "complete" parsers.
* `IResult<&[u8], T>` of a hand-written scanner (`raw_string`, `string`) is `Res (rest × value)` with the nom error
  named by its variant (`"Error"` / `"Failure"`; the payload `(input, ErrorKind)` is never inspected by the crate);
  `toPR` / `parserOf` turn such a function into a parser where the source passes it to a combinator.
* `u64` of nom returns a Rust `u64`, an `Int` in the translation: `nomU64`.
* `map(p, |x| { statements })` whose closure can panic (`exprs[0]`) is `mapTry`: the panic leaves the parser.
* `impl Display`: the `Formatter` is the text written so far; writing to a `String` cannot fail.
Imports: RustPrelude5a (→ RustPrelude4 …) and Nom.
-/
import JsonbModel.RustPrelude5a
import JsonbModel.Nom

namespace Jsonb.Rs
open Jsonb.Nom

/-- the `IResult<&[u8], T>` of a hand-written scanner (`Res (rest × value)`, nom errors by variant name) as the
outcome of a nom parser -/
def toPR {α : Type} : Res (Bytes × α) → PR α
  | .ok (rest, a) => .ok a rest
  | .err e => if e = "Failure" then .failure else .error
  | .panic s => .panic s
  | .fuel => .fuel

/-- a hand-written `fn(&[u8]) -> IResult<&[u8], T>` passed where nom expects a parser -/
def parserOf {α : Type} (f : Bytes → Res (Bytes × α)) : Parser α := fun i => toPR (f i)

/-- `character::complete::u64`: the value as a Rust `u64` (an `Int` here) -/
def nomU64 : Parser Int := Nom.map Nom.u64 (fun n => (n : Int))

/-- the outcome of a block closure inside `map`: a value goes on with the rest of the input, a panic unwinds -/
def resToPR {β : Type} (x : Res β) (rest : Bytes) : PR β :=
  match x with
  | .ok b => .ok b rest
  | .err _ => .error
  | .panic s => .panic s
  | .fuel => .fuel

/-- `map(p, closure)` for a closure that is a block of statements (it may panic: the panic unwinds through nom) -/
def mapTry {α β : Type} (p : Parser α) (f : α → Res β) : Parser β :=
  fun i => (p i).bind fun a r => resToPR (f a) r

/-- `v[i]` on a `Vec<T>` / slice: panics out of bounds -/
def vecIndex {α : Type} (v : List α) (i : Int) : Res α :=
  if i < 0 then .panic "index out of bounds"
  else match v[i.toNat]? with
    | some a => .ok a
    | none => .panic "index out of bounds"

/-- `v.insert(0, x)` (position 0 is always in range) -/
def vecInsert0 {α : Type} (v : List α) (x : α) : List α := x :: v

/-- `for x in xs { body }` for a body without `break` / `continue` / `return`: the state is threaded through -/
def foldRes {α σ : Type} (xs : List α) (init : σ) (body : α → σ → Res σ) : Res σ :=
  match xs with
  | [] => .ok init
  | x :: rest => (body x init).bind fun s => foldRes rest s body

/-- `x.saturating_neg()` on a signed type: `MIN` maps to `MAX` -/
def saturatingNeg (t : IntTy) (x : Int) : Int := if -x > t.maxVal then t.maxVal else -x

/-- `x.clamp(lo, hi)` for constants `lo ≤ hi` (checked by the translator; `clamp` asserts it) -/
def clamp (x lo hi : Int) : Int := if x < lo then lo else if x > hi then hi else x

/-- the decimal digits of a natural number (`itoa` / `impl Display for u64`) -/
def displayNat (n : Nat) : Bytes := (Nat.toDigits 10 n).map (fun c => UInt8.ofNat c.toNat)

/-- `{}` of an integer (`impl Display for i32` …): `-` for a negative value, then the decimal digits of the magnitude -/
def displayInt (x : Int) : Bytes := if x < 0 then 45 :: displayNat x.natAbs else displayNat x.natAbs

end Jsonb.Rs
