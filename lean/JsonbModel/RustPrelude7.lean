/-
RustPrelude7: meaning of the primitives phase 7 of the Rust → Lean translator adds (tools/rs2lean7.py).
-/
import JsonbModel.RustPrelude6b
import JsonbModel.RustPrelude6c
import JsonbModel.RustPrelude5b

namespace Jsonb.Rs

/-- `Vec::remove(i)` (the removed element is dropped by the caller): the elements behind `i` move down; out of range it
panics (`removal index (is {i}) should be < len (is {len})`, the standard library's wording) -/
def vecRemove {α : Type} (xs : List α) (i : Int) : Res (List α) :=
  if 0 ≤ i ∧ i.toNat < xs.length then .ok (xs.eraseIdx i.toNat)
  else .panic s!"removal index (is {i}) should be < len (is {xs.length})"

/-- `BTreeMap<String, V>::remove(key)` (the removed value is dropped by the caller).  A `BTreeMap` holds a key at most
once (the maps of the translation are built with `Rs.btreeInsert` of RustPrelude3.lean, which replaces the value of an
equal key), so removing the entry of `key` is dropping every entry with that key -/
def btreeRemove {β : Type} (m : List (Bytes × β)) (k : Bytes) : List (Bytes × β) :=
  m.filter (fun kv => kv.1 != k)

/-- `for v in xs { f(v); }` over the `&mut` elements of a `Vec` (`f` takes `&mut T` and returns `()`): the vector of the
final values, in order; the first call that does not return normally ends the loop (and the function) -/
def forEachMut {α : Type} : List α → (α → Res α) → Res (List α)
  | [], _ => .ok []
  | x :: xs, f =>
    match f x with
    | .ok y =>
      (match forEachMut xs f with
       | .ok ys => .ok (y :: ys)
       | .err e => .err e
       | .panic s => .panic s
       | .fuel => .fuel)
    | .err e => .err e
    | .panic s => .panic s
    | .fuel => .fuel

/-- `for (_, v) in m.iter_mut() { f(v); }` over the `&mut` values of a `BTreeMap` (in key order = list order) -/
def forEachMutVal {β : Type} : List (Bytes × β) → (β → Res β) → Res (List (Bytes × β))
  | [], _ => .ok []
  | (k, x) :: xs, f =>
    match f x with
    | .ok y =>
      (match forEachMutVal xs f with
       | .ok ys => .ok ((k, y) :: ys)
       | .err e => .err e
       | .panic s => .panic s
       | .fuel => .fuel)
    | .err e => .err e
    | .panic s => .panic s
    | .fuel => .fuel

/-- `a.append(&mut b)` on `Vec`s: the elements of `b` behind those of `a` (the translation empties `b` itself; growing a
`Vec` beyond `isize::MAX` bytes is outside the domain of every agreement theorem).  (`Rs.vecAppend` of RustPrelude6a.lean
is the same function; that prelude is not imported here) -/
def vecAppend7 {α : Type} (v w : List α) : List α := v ++ w

/-- `a.append(&mut b)` on `BTreeMap<String, V>`s: every entry of `b` moves into `a`; for a key present in both the value
of `b` wins (`Rs.btreeInsert` of RustPrelude3.lean replaces the value of an equal key) -/
def btreeAppend {β : Type} (m other : List (Bytes × β)) : List (Bytes × β) :=
  other.foldl (fun m kv => btreeInsert m kv.1 kv.2) m

end Jsonb.Rs
