/-
Implementation model of de.rs: the stream `Decoder` (cursor = remaining bytes), with fuel
decremented on every call.  Panic sites are explicit `Res.panic`; after the three `fix:`
commits there is none left that an input can reach, which is what `C10_total` proves.
-/
import JsonbModel.Value
import JsonbModel.Utf8

namespace Jsonb

@[inline] def hdrType (h : Nat) : Nat := h &&& C.CONTAINER_HEADER_TYPE_MASK
@[inline] def hdrLen (h : Nat) : Nat := h &&& C.CONTAINER_HEADER_LEN_MASK
/-- `JEntry::decode_jentry`: the top (offset-flag) bit is ignored -/
@[inline] def jeType (e : Nat) : Nat := e &&& C.JENTRY_TYPE_MASK
@[inline] def jeLen (e : Nat) : Nat := e &&& C.JENTRY_OFF_LEN_MASK

/-- `decode_jentries`: `n` entry words, error at the first missing one -/
def readEntries : Nat → Bytes → Option (List (Nat × Nat) × Bytes)
  | 0, bs => some ([], bs)
  | n+1, bs =>
    match readU32 bs with
    | none => none
    | some (e, bs) =>
      match readEntries n bs with
      | none => none
      | some (es, bs) => some ((jeType e, jeLen e) :: es, bs)

/-- `BTreeMap::insert` on a sorted association list: replace an equal key, else insert in
order. -/
def insertKV (k : Bytes) (v : JV) : List (Bytes × JV) → List (Bytes × JV)
  | [] => [(k, v)]
  | (k', v') :: rest =>
    match lexCmp k k' with
    | .lt => (k, v) :: (k', v') :: rest
    | .eq => (k, v) :: rest
    | .gt => (k', v') :: insertKV k v rest

def mkObj (kvs : List (Bytes × JV)) : List (Bytes × JV) :=
  kvs.foldl (fun m kv => insertKV kv.1 kv.2 m) []

mutual
/-- `Decoder::decode_jsonb` -/
def decJsonb : Nat → Bytes → Res (JV × Bytes)
  | 0, _ => .fuel
  | fuel+1, bs =>
    match readU32 bs with
    | none => .err "InvalidEOF"
    | some (h, bs) =>
      if hdrType h = C.SCALAR_CONTAINER_TAG then
        -- a scalar header is exactly 0x20000000 (JSON text starting with `"`, `-` or a digit
        -- has the same type bits and must reach the text fallback)
        if h ≠ C.SCALAR_CONTAINER_TAG then .err "InvalidJsonbHeader"
        else
          match readU32 bs with
          | none => .err "InvalidEOF"
          | some (e, bs) => decScalar fuel (jeType e) (jeLen e) bs
      else if hdrType h = C.ARRAY_CONTAINER_TAG then
        match readEntries (hdrLen h) bs with
        | none => .err "InvalidEOF"
        | some (es, bs) =>
          match decItems fuel es bs with
          | .ok (vs, bs) => .ok (JV.arr vs, bs)
          | .err e => .err e
          | .panic s => .panic s
          | .fuel => .fuel
      else if hdrType h = C.OBJECT_CONTAINER_TAG then
        match readEntries (hdrLen h * 2) bs with
        | none => .err "InvalidEOF"
        | some (es, bs) =>
          match decItems fuel (es.take (hdrLen h)) bs with
          | .ok (ks, bs) =>
            (match decObjVals fuel ks (es.drop (hdrLen h)) bs with
             | .ok (kvs, bs) => .ok (JV.obj (mkObj kvs), bs)
             | .err e => .err e
             | .panic s => .panic s
             | .fuel => .fuel)
          | .err e => .err e
          | .panic s => .panic s
          | .fuel => .fuel
      else .err "InvalidJsonbHeader"
/-- `Decoder::decode_scalar` -/
def decScalar : Nat → Nat → Nat → Bytes → Res (JV × Bytes)
  | 0, _, _, _ => .fuel
  | fuel+1, ty, len, bs =>
    if ty = C.NULL_TAG then .ok (JV.null, bs)
    else if ty = C.TRUE_TAG then .ok (JV.bool true, bs)
    else if ty = C.FALSE_TAG then .ok (JV.bool false, bs)
    else if ty = C.STRING_TAG then
      if len ≤ bs.length then
        if validUtf8 (bs.take len) then .ok (JV.str (bs.take len), bs.drop len)
        else .err "InvalidUtf8"
      else .err "InvalidUtf8"
    else if ty = C.NUMBER_TAG then
      if len ≤ bs.length then
        match Num.dec (bs.take len) with
        | .ok n => .ok (JV.num n, bs.drop len)
        | .err e => .err e
        | .panic s => .panic s
        | .fuel => .fuel
      else .err "InvalidJsonbNumber"
    else if ty = C.CONTAINER_TAG then decJsonb fuel bs
    else .err "InvalidJsonbJEntry"
/-- the `for jentry in jentries { decode_scalar }` loops -/
def decItems : Nat → List (Nat × Nat) → Bytes → Res (List JV × Bytes)
  | 0, _, _ => .fuel
  | _+1, [], bs => .ok ([], bs)
  | fuel+1, (ty, len) :: es, bs =>
    match decScalar fuel ty len bs with
    | .ok (v, bs) =>
      (match decItems fuel es bs with
       | .ok (vs, bs) => .ok (v :: vs, bs)
       | .err e => .err e
       | .panic s => .panic s
       | .fuel => .fuel)
    | .err e => .err e
    | .panic s => .panic s
    | .fuel => .fuel
/-- second loop of `decode_object`: key must be a string, then decode the value -/
def decObjVals : Nat → List JV → List (Nat × Nat) → Bytes → Res (List (Bytes × JV) × Bytes)
  | 0, _, _, _ => .fuel
  | _+1, [], _, bs => .ok ([], bs)
  | _+1, _ :: _, [], _ => .panic "decode_object: jentries.pop_front().unwrap()"
  | fuel+1, k :: ks, (ty, len) :: es, bs =>
    match k with
    | JV.str s =>
      (match decScalar fuel ty len bs with
       | .ok (v, bs) =>
         (match decObjVals fuel ks es bs with
          | .ok (kvs, bs) => .ok ((s, v) :: kvs, bs)
          | .err e => .err e
          | .panic s => .panic s
          | .fuel => .fuel)
       | .err e => .err e
       | .panic s => .panic s
       | .fuel => .fuel)
    | _ => .err "InvalidJsonbJEntry"
end

/-- fuel that is always enough: every call consumes fuel, and there are at most three calls
per entry word (4 bytes) plus a constant. -/
def decFuel (bs : Bytes) : Nat := 2 * bs.length + 8

/-- `parse_jsonb` = `Decoder::decode`: the buffer must hold at least a header; trailing
bytes are not checked. -/
def parseJsonb (bs : Bytes) : Res JV :=
  if bs.length < 4 then .err "InvalidJsonb"
  else match decJsonb (decFuel bs) bs with
    | .ok (v, _) => .ok v
    | .err e => .err e
    | .panic s => .panic s
    | .fuel => .fuel

end Jsonb
