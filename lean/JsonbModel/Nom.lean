/-
The nom 7.1.3 combinators used by `jsonpath/parser.rs` and `keypath.rs`, as plain functions on
`Bytes` (input type `&[u8]`, "complete" flavour).

A parser returns
* `ok a rest`  : `Ok((rest, a))`
* `error`      : `Err(nom::Err::Error(_))`   – recoverable, `alt`/`opt`/`many0` fall through
* `failure`    : `Err(nom::Err::Failure(_))` – NOT recoverable (produced by `cut(digit1)` inside
                 `number::complete::double`; `alt`, `opt`, `many0`, `not`, `separated_list1`
                 all propagate it)
* `panic s`    : a Rust panic at site `s`
* `fuel`       : the model's recursion/loop fuel ran out (never on real inputs).
`Err::Incomplete` cannot arise (complete parsers only).  No Mathlib.
-/
import JsonbModel.F64Dec

namespace Jsonb.Nom

inductive PR (α : Type) where
  | ok (a : α) (rest : Bytes)
  | error
  | failure
  | panic (site : String)
  | fuel
  deriving Repr

abbrev Parser (α : Type) := Bytes → PR α

namespace PR
/-- sequencing: run the continuation on success, propagate everything else -/
@[inline] def bind {α β} (r : PR α) (f : α → Bytes → PR β) : PR β :=
  match r with
  | ok a rest => f a rest
  | error => error
  | failure => failure
  | panic s => panic s
  | fuel => fuel
end PR

/-! ### Sequencing combinators -/

/-- `combinator::map` -/
def map {α β} (p : Parser α) (f : α → β) : Parser β :=
  fun i => (p i).bind fun a r => .ok (f a) r

/-- `combinator::value` -/
def value {α β} (v : β) (p : Parser α) : Parser β :=
  fun i => (p i).bind fun _ r => .ok v r

/-- `sequence::pair` -/
def pair {α β} (p : Parser α) (q : Parser β) : Parser (α × β) :=
  fun i => (p i).bind fun a r => (q r).bind fun b r' => .ok (a, b) r'

/-- `sequence::preceded` -/
def preceded {α β} (p : Parser α) (q : Parser β) : Parser β :=
  fun i => (p i).bind fun _ r => q r

/-- `sequence::terminated` -/
def terminated {α β} (p : Parser α) (q : Parser β) : Parser α :=
  fun i => (p i).bind fun a r => (q r).bind fun _ r' => .ok a r'

/-- `sequence::delimited` -/
def delimited {α β γ} (p : Parser α) (q : Parser β) (s : Parser γ) : Parser β :=
  fun i => (p i).bind fun _ r => (q r).bind fun b r' => (s r').bind fun _ r'' => .ok b r''

/-- `sequence::separated_pair` -/
def separatedPair {α β γ} (p : Parser α) (sep : Parser β) (q : Parser γ) : Parser (α × γ) :=
  fun i => (p i).bind fun a r => (sep r).bind fun _ r' => (q r').bind fun c r'' => .ok (a, c) r''

/-- `sequence::tuple` of three parsers -/
def tuple3 {α β γ} (p : Parser α) (q : Parser β) (s : Parser γ) : Parser (α × β × γ) :=
  fun i => (p i).bind fun a r => (q r).bind fun b r' => (s r').bind fun c r'' => .ok (a, b, c) r''

/-- `sequence::tuple` of four parsers -/
def tuple4 {α β γ δ} (p : Parser α) (q : Parser β) (s : Parser γ) (t : Parser δ) :
    Parser (α × β × γ × δ) :=
  fun i => (p i).bind fun a r => (q r).bind fun b r' => (s r').bind fun c r'' =>
    (t r'').bind fun d r''' => .ok (a, b, c, d) r'''

/-! ### Choice, option, negation -/

/-- `branch::alt` on two alternatives; `alt((a, b, c, …))` is `alt a (alt b (alt c …))`:
the first alternative that does not return `Err::Error` decides. -/
def alt {α} (p q : Parser α) : Parser α :=
  fun i => match p i with
    | .error => q i
    | r => r

/-- `combinator::opt` -/
def opt {α} (p : Parser α) : Parser (Option α) :=
  fun i => match p i with
    | .ok a r => .ok (some a) r
    | .error => .ok none i
    | .failure => .failure
    | .panic s => .panic s
    | .fuel => .fuel

/-- `combinator::cond` -/
def cond {α} (b : Bool) (p : Parser α) : Parser (Option α) :=
  fun i => if b then (p i).bind fun a r => .ok (some a) r else .ok none i

/-- `combinator::map_res` (the external error is dropped: it becomes `Err::Error`) -/
def mapRes {α β} (p : Parser α) (f : α → Option β) : Parser β :=
  fun i => (p i).bind fun a r => match f a with
    | some b => .ok b r
    | none => .error

/-- `combinator::not` -/
def not {α} (p : Parser α) : Parser Unit :=
  fun i => match p i with
    | .ok _ _ => .error
    | .error => .ok () i
    | .failure => .failure
    | .panic s => .panic s
    | .fuel => .fuel

/-- `combinator::cut`: `Error` becomes `Failure` -/
def cut {α} (p : Parser α) : Parser α :=
  fun i => match p i with
    | .error => .failure
    | r => r

/-! ### Repetition -/

/-- loop of `multi::many0`; `n` bounds the number of iterations -/
def many0Loop {α} (p : Parser α) : Nat → Bytes → List α → PR (List α)
  | 0, _, _ => .fuel
  | n+1, i, acc =>
    match p i with
    | .error => .ok acc.reverse i
    | .ok o i1 =>
      if i1.length == i.length then .error      -- infinite loop check
      else many0Loop p n i1 (o :: acc)
    | .failure => .failure
    | .panic s => .panic s
    | .fuel => .fuel

/-- `multi::many0`: each successful iteration must change the input length, so
`input.length + 1` iterations always suffice for parsers that never lengthen the input. -/
def many0 {α} (p : Parser α) : Parser (List α) :=
  fun i => many0Loop p (i.length + 1) i []

/-- loop of `multi::separated_list1` -/
def sepList1Loop {α β} (sep : Parser β) (p : Parser α) : Nat → Bytes → List α → PR (List α)
  | 0, _, _ => .fuel
  | n+1, i, acc =>
    match sep i with
    | .error => .ok acc.reverse i
    | .ok _ i1 =>
      if i1.length == i.length then .error      -- infinite loop check
      else match p i1 with
        | .error => .ok acc.reverse i           -- NB: the separator is NOT consumed
        | .ok o i2 => sepList1Loop sep p n i2 (o :: acc)
        | .failure => .failure
        | .panic s => .panic s
        | .fuel => .fuel
    | .failure => .failure
    | .panic s => .panic s
    | .fuel => .fuel

/-- `multi::separated_list1` -/
def separatedList1 {α β} (sep : Parser β) (p : Parser α) : Parser (List α) :=
  fun i => (p i).bind fun o i1 => sepList1Loop sep p (i1.length + 1) i1 [o]

/-! ### Tokens -/

/-- `character::complete::char` for an ASCII char given as a byte -/
def char (c : UInt8) : Parser UInt8 :=
  fun i => match i with
    | b :: r => if b == c then .ok c r else .error
    | [] => .error

/-- `character::complete::one_of` for a list of ASCII bytes -/
def oneOf (cs : List UInt8) : Parser UInt8 :=
  fun i => match i with
    | b :: r => if cs.contains b then .ok b r else .error
    | [] => .error

def isPrefix : Bytes → Bytes → Bool
  | [], _ => true
  | _ :: _, [] => false
  | t :: ts, b :: bs => t == b && isPrefix ts bs

/-- `bytes::complete::tag` -/
def tag (t : Bytes) : Parser Bytes :=
  fun i => if isPrefix t i then .ok (i.take t.length) (i.drop t.length) else .error

/-- nom's `lowercase_byte` -/
def lowerByte (b : UInt8) : UInt8 := if 65 ≤ b && b ≤ 90 then b + 32 else b

def isPrefixNoCase : Bytes → Bytes → Bool
  | [], _ => true
  | _ :: _, [] => false
  | t :: ts, b :: bs => lowerByte t == lowerByte b && isPrefixNoCase ts bs

/-- `bytes::complete::tag_no_case` (ASCII case folding only) -/
def tagNoCase (t : Bytes) : Parser Bytes :=
  fun i => if isPrefixNoCase t i then .ok (i.take t.length) (i.drop t.length) else .error

def isSpace (b : UInt8) : Bool := b == 32 || b == 9 || b == 13 || b == 10

def dropSpaces : Bytes → Bytes
  | [] => []
  | b :: r => if isSpace b then dropSpaces r else b :: r

/-- `character::complete::multispace0`: space, tab, CR, LF; never fails -/
def multispace0 : Parser Unit :=
  fun i => .ok () (dropSpaces i)

/-! ### Numbers -/

def isDigit (b : UInt8) : Bool := 48 ≤ b && b ≤ 57

/-- `checked_add(d)` / `checked_sub(d)` of the digit `b` (before the range check) -/
def intStep (neg : Bool) (m : Int) (b : UInt8) : Int :=
  if neg then m - ((b.toNat - 48 : Nat) : Int) else m + ((b.toNat - 48 : Nat) : Int)

/-- the accumulation loop of the `ints!`/`uints!` macros.  `neg = false`: `checked_mul(10)` then
`checked_add(d)`; `neg = true`: `checked_mul(10)` then `checked_sub(d)`.  `lo ≤ value ≤ hi`
is the range of the type; a `None` from the checked operations is `Err::Error`.
`first` = no digit seen yet (`pos == 0`). -/
def intLoop (neg : Bool) (lo hi : Int) : Bytes → Int → Bool → PR Int
  | [], v, _ => .ok v []
  | b :: r, v, first =>
    if isDigit b then
      if v * 10 < lo ∨ v * 10 > hi then .error
      else if intStep neg (v * 10) b < lo ∨ intStep neg (v * 10) b > hi then .error
      else intLoop neg lo hi r (intStep neg (v * 10) b) false
    else if first then .error else .ok v (b :: r)

/-- the `sign` helper of nom: `opt(alt((value(false, tag("-")), value(true, tag("+")))))`;
returns (is negative, rest) -/
def splitSign : Bytes → Bool × Bytes
  | 45 :: r => (true, r)
  | 43 :: r => (false, r)
  | i => (false, i)

/-- `character::complete::{i8,…,i128}`: optional `+`/`-`, then at least one digit, greedy -/
def signedInt (lo hi : Int) : Parser Int :=
  fun i =>
    if (splitSign i).2.isEmpty then .error
    else intLoop (splitSign i).1 lo hi (splitSign i).2 0 true

/-- `character::complete::{u8,…,u128}`: no sign -/
def unsignedInt (hi : Int) : Parser Int :=
  fun i => if i.isEmpty then .error else intLoop false 0 hi i 0 true

def i32 : Parser Int := signedInt (-2147483648) 2147483647
def i64 : Parser Int := signedInt (-9223372036854775808) 9223372036854775807
def u64 : Parser Nat := map (unsignedInt 18446744073709551615) Int.toNat

/-- split off the leading ASCII digits -/
def spanDigits : Bytes → Bytes × Bytes
  | [] => ([], [])
  | b :: r => if isDigit b then let (d, r') := spanDigits r; (b :: d, r') else ([], b :: r)

/-- `character::complete::digit1` -/
def digit1 : Parser Bytes :=
  fun i => match spanDigits i with
    | ([], _) => .error
    | (d, r) => .ok d r

/-- value of a string of ASCII digits -/
def digitsVal (ds : Bytes) : Nat := ds.foldl (fun a b => a * 10 + (b.toNat - 48)) 0

/-- The pieces of a literal accepted by `number::complete::recognize_float`. -/
structure FloatLit where
  neg : Bool
  intDigits : Bytes
  fracDigits : Bytes
  expNeg : Bool
  expDigits : Bytes
  deriving Repr

/-- optional sign `opt(alt((char('+'), char('-'))))` -/
def optSign : Parser Bool :=
  fun i => match i with
    | 43 :: r => .ok false r
    | 45 :: r => .ok true r
    | _ => .ok false i

/-- `number::complete::recognize_float`, returning the parts instead of the slice:
```
tuple(( opt(alt((char('+'), char('-')))),
        alt(( tuple((digit1, opt(pair(char('.'), opt(digit1))))), tuple((char('.'), digit1)) )),
        opt(tuple(( alt((char('e'), char('E'))), opt(alt((char('+'), char('-')))), cut(digit1) ))) ))
```
Note the `cut`: an `e`/`E` (with optional sign) that is not followed by a digit is a FAILURE. -/
def recognizeFloat : Parser FloatLit :=
  fun i =>
    (optSign i).bind fun neg r0 =>
    let mant : PR (Bytes × Bytes) :=
      alt
        (fun i => (digit1 i).bind fun ds r =>
          (opt (pair (char 46) (opt digit1)) r).bind fun o r' =>
            match o with
            | some (_, some fs) => .ok (ds, fs) r'
            | _ => .ok (ds, []) r')
        (fun i => (char 46 i).bind fun _ r => (digit1 r).bind fun fs r' => .ok ([], fs) r')
        r0
    mant.bind fun (ds, fs) r1 =>
    (opt (tuple3 (alt (char 101) (char 69)) optSign (cut digit1)) r1).bind fun o r2 =>
      match o with
      | some (_, eneg, eds) => .ok ⟨neg, ds, fs, eneg, eds⟩ r2
      | none => .ok ⟨neg, ds, fs, false, []⟩ r2

/-- Rust `str::parse::<f64>` on the text recognised by `recognize_float`: the correctly rounded
binary64 of `±(int.frac)·10^exp`. -/
def FloatLit.bits (l : FloatLit) : Nat :=
  let digits := digitsVal (l.intDigits ++ l.fracDigits)
  let e : Int := digitsVal l.expDigits
  let e : Int := if l.expNeg then -e else e
  F64.ofDecimal l.neg digits (e - (l.fracDigits.length : Int))

/-- `number::complete::double` = `recognize_float_or_exceptions` then `str::parse::<f64>`:
`alt((recognize_float, tag_no_case("nan"), tag_no_case("inf"), tag_no_case("infinity")))`.
The words carry no sign; `infinity` is shadowed by `inf` (only three bytes are consumed).
Result = the bit pattern. -/
def double : Parser Nat :=
  alt (map recognizeFloat FloatLit.bits)
    (alt (value F64.canonNaN (tagNoCase [110, 97, 110]))
      (alt (value F64.posInf (tagNoCase [105, 110, 102]))
        (value F64.posInf (tagNoCase [105, 110, 102, 105, 110, 105, 116, 121]))))

end Jsonb.Nom
