/-
Semantics of the Rust constructs added by the phase-5b translation (`Generated/Translated5b.lean`, written by
`tools/rs2lean5b.py`): saturating addition and the bit operators on SIGNED integers (two's complement), as used
by the `f64` key image of `scalar_convert_to_comparable`
(`let s = n.to_bits() as i64; let v = s ^ (((s >> 63) as u64) >> 1) as i64;`), and collecting one of the crate's
iterator structs into a `Vec` (`contains_jsonb`).
HAND-WRITTEN and TRUSTED, like the earlier preludes it extends; the translator only maps syntax to these names.
`>>` on a signed type is already `Rs.shr` of RustPrelude.lean (arithmetic shift = floor division), `as` between
integer types is `Rs.cast` (two's complement wrap).
Imports: RustPrelude4 only.
-/
import JsonbModel.RustPrelude4

namespace Jsonb.Rs

/-- `a.saturating_add(b)` at type `t`: the sum, clamped to the range of `t` -/
def saturatingAdd (t : IntTy) (a b : Int) : Int :=
  if a + b > t.maxVal then t.maxVal else if a + b < t.minVal then t.minVal else a + b

/-- the two's complement bit pattern of a value of type `t` (`x as u<bits>`), as a natural number -/
def bitsOf (t : IntTy) (x : Int) : Nat := (x % (2 ^ t.bits : Nat)).toNat

/-- `a & b` on a signed type: the operator on the two's complement bit patterns, read back at type `t` -/
def bitandS (t : IntTy) (a b : Int) : Int := wrap t ((bitsOf t a &&& bitsOf t b : Nat) : Int)
/-- `a | b` on a signed type -/
def bitorS (t : IntTy) (a b : Int) : Int := wrap t ((bitsOf t a ||| bitsOf t b : Nat) : Int)
/-- `a ^ b` on a signed type -/
def bitxorS (t : IntTy) (a b : Int) : Int := wrap t ((bitsOf t a ^^^ bitsOf t b : Nat) : Int)

/-- `<iterator struct>.collect::<Vec<_>>()`, also under `.filter(|p| c)` / `.map(|p| x)` with pure closures (the
translator applies those to the collected list: `List.filter` / `List.map`): `next` is called until it answers
`None`.  As for `Rs.forIter` nothing bounds the number of calls syntactically: the function's explicit `fuel`
does, and exhausting it ends the function with `Res.fuel`. -/
def collectIter {ρ ι α : Type} (fuel : Nat) (next : ι → Res (Option α × ι)) (it : ι) : Ctl ρ (List α) :=
  match fuel with
  | 0 => .ret .fuel
  | n + 1 =>
    match next it with
    | .ok (none, _) => .val []
    | .ok (some x, it') =>
      (match collectIter n next it' with
       | .val rest => .val (x :: rest)
       | .ret r => .ret r)
    | .err e => .ret (.err e)
    | .panic p => .ret (.panic p)
    | .fuel => .ret .fuel

end Jsonb.Rs
