/- `keyOf`: the byte-level model of `convert_to_comparable` on a document's encoding (shared by
Props/C14 and the proofs about it). -/
import JsonbModel.Functions.Order
import JsonbModel.Spec.Order

namespace Jsonb.Props
open Jsonb JV

def keyOf (v : JV) : Bytes :=
  match Fn.convertToComparable (encodeSpec v) [] with
  | .ok k => k
  | _ => []

end Jsonb.Props
