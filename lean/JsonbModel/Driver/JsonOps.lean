/-
Line-protocol op for the JSON text parser model: `jparse <hex>` answers with the canonical
result of `parseValue` on the bytes (`-` = empty input).
-/
import JsonbModel.Driver.Wire
import JsonbModel.JsonParser

namespace Jsonb.Driver
open Jsonb.Wire

/-- `some answer` for the requests this module handles, `none` for all others -/
def jsonStep : List String → Option String
  | ["jparse", h] =>
    match bytesOfHex h with
    | some b => some (showRes showJV (parseValue b))
    | none => some "bad-request"
  -- the intended meaning is part of the request
  | ["jexpect", h, want] =>
    match bytesOfHex h with
    | some b =>
      (match parseValue b with
       | .ok v => some (if showJV v == want then "ok" else "MISMATCH got " ++ showJV v)
       | .err _ => some "MISMATCH rejected"
       | .panic _ => some "panic"
       | .fuel => some "fuel")
    | none => some "bad-request"
  | ["jreject", h] =>
    match bytesOfHex h with
    | some b =>
      (match parseValue b with
       | .ok v => some ("MISMATCH accepted as " ++ showJV v)
       | .err _ => some "ok"
       | .panic _ => some "panic"
       | .fuel => some "fuel")
    | none => some "bad-request"
  | _ => none

end Jsonb.Driver
