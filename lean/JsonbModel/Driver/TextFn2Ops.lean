/-
Driver ops `t:<op>` for the whole public functions of Functions/Text2.lean (JSON text or JSONB
input).  Same op names and answer formats as the JSONB ops of the same functions
(AccessOps / EditOps / SelectOps / TextOps / SerdeOps), so that one expected answer serves for
the text and for its encoding.
-/
import JsonbModel.Driver.TextFnOps
import JsonbModel.Driver.TextOps
import JsonbModel.Functions.Text2

namespace Jsonb.Driver
open Jsonb.Wire

/-- a Rust `bool` result printed like the JSONB ops `isarr` / `isobj` print it (no `ok` prefix) -/
def showBoolRes : Res Bool → String
  | .ok b => showBool b
  | .err _ => "err"
  | .panic _ => "panic"
  | .fuel => "fuel"

/-- `Result<bool, Error>` of `path_match`, printed like `pathmatch` -/
def showMatch : Res Bool → String
  | .ok b => "ok " ++ showBool b
  | .err e => if e == "InvalidJsonPathPredicate" then "err:InvalidJsonPathPredicate" else "err"
  | .panic _ => "panic"
  | .fuel => "fuel"

def textFn2Step : List String → Option String
  -- ops that exist for JSONB input under the same name
  | ["t:existsany", d, ks] => some <| withDoc d fun b => match parseKeyList ks with
      | some ks => showRes showBool (T.existsAnyKeys b ks) | none => "bad-request"
  | ["t:each", d] => some <| withDoc d fun b =>
      showOptRes (showList fun (k, v) => hexOfBytes k ++ ":" ++ hexOfBytes v) (T.objectEach b)
  | ["t:vals", d] => some <| withDoc d fun b => showOptRes (showList hexOfBytes) (T.arrayValues b)
  | ["t:isarr", d] => some <| withDoc d fun b => showBoolRes (T.isArray b)
  | ["t:isobj", d] => some <| withDoc d fun b => showBoolRes (T.isObject b)
  | ["t:asi64", d] => some <| withDoc d fun b => showOptRes toString (T.asI64 b)
  | ["t:asu64", d] => some <| withDoc d fun b => showOptRes toString (T.asU64 b)
  | ["t:tobool", d] => some <| withDoc d fun b => showRes showBool (T.toBool b)
  | ["t:toi64", d] => some <| withDoc d fun b => showRes toString (T.toI64 b)
  | ["t:tou64", d] => some <| withDoc d fun b => showRes toString (T.toU64 b)
  | ["t:delkp", p, d, kp] => some <| with2 p d fun p d => match parseKeyPathArg kp with
      | some kp => showBuf p (T.deleteByKeypath d kp p) | none => "bad-request"
  | ["t:getpathfirst", p, d, path] => some <| with2 p d fun p d => withPath path fun jp =>
      showSel p (T.getByPathFirst d jp p)
  | ["t:getpatharray", p, d, path] => some <| with2 p d fun p d => withPath path fun jp =>
      showSel p (T.getByPathArray d jp p)
  | ["t:pathmatch", d, path] => some <| withDoc d fun d => withPath path fun jp => showMatch (T.pathMatch d jp)
  | ["t:tostr", d, f] => some <| withDoc d fun b => match parseFmt f with
      | some tbl => showRes hexOfBytes (T.toStringFn (fmtOf tbl) false b) | none => "bad-request"
  | ["t:topretty", d, f] => some <| withDoc d fun b => match parseFmt f with
      | some tbl => showRes hexOfBytes (T.toStringFn (fmtOf tbl) true b) | none => "bad-request"
  | ["t:toserdeobj", d] => some <| withDoc d fun b => match T.toSerdeJsonObject b with
      | .ok (some s) => "ok " ++ showSJ s
      | .ok none => "ok none"
      | .err _ => "err"
      | .panic _ => "panic"
      | .fuel => "fuel"
  -- functions that had no op so far (they serve JSONB input as well: the sniffing is part of them)
  | ["t:isnull", d] => some <| withDoc d fun b => showBoolRes (T.isNull b)
  | ["t:isbool", d] => some <| withDoc d fun b => showBoolRes (T.isBoolean b)
  | ["t:isnum", d] => some <| withDoc d fun b => showBoolRes (T.isNumber b)
  | ["t:isstr", d] => some <| withDoc d fun b => showBoolRes (T.isString b)
  | ["t:isi64", d] => some <| withDoc d fun b => showBoolRes (T.isI64 b)
  | ["t:isu64", d] => some <| withDoc d fun b => showBoolRes (T.isU64 b)
  | ["t:isf64", d] => some <| withDoc d fun b => showBoolRes (T.isF64 b)
  | ["t:asf64", d] => some <| withDoc d fun b => showOptRes hex16 (T.asF64 b)
  | ["t:tof64", d] => some <| withDoc d fun b => showRes hex16 (T.toF64 b)
  -- `to_str` (the cast; `tostr` is `to_string`): float text table as for `tostr`
  | ["t:caststr", d, f] => some <| withDoc d fun b => match parseFmt f with
      | some tbl => showRes hexOfBytes (T.toStr (fmtOf tbl) b) | none => "bad-request"
  | _ => none

end Jsonb.Driver
