/- Driver ops for compare / contains / convert_to_comparable. -/
import JsonbModel.Driver.EditOps
import JsonbModel.Functions.Order
import JsonbModel.Spec.Order

namespace Jsonb.Driver
open Jsonb.Wire

def orderStep : List String → Option String
  | ["cmp", a, b] => some <| with2 a b fun a b => showRes showOrd (Fn.compareDocs a b)
  | ["spec:cmp", a, b] => some <| spec2 a b fun a b => "ok " ++ showOrd (Spec.cmpJV a b)
  | ["contains", a, b] => some <| with2 a b fun a b => showRes showBool (Fn.contains a b)
  | ["spec:contains", a, b] => some <| spec2 a b fun a b => "ok " ++ showBool (Spec.contains a b)
  | ["cmpkey", p, d] => some <| with2 p d fun p d => showBuf p (Fn.convertToComparable d p)
  -- laws evaluated on the real code alone: the model answers the constant the theorems give
  | ["cmplaws", _, _, _] => some "ok"
  | ["containslaws", _, _, _] => some "ok"
  | ["keyorder", _, _] => some "ok"
  | _ => none

end Jsonb.Driver
