/-
Line-protocol syntax shared by all driver ops: hex strings, the tagged prefix syntax of
trees, canonical result printing.  Glue code (unverified, in the trusted base).
-/
import JsonbModel.Value

namespace Jsonb.Wire

def hexDigit (n : Nat) : Char := if n < 10 then Char.ofNat (48 + n) else Char.ofNat (87 + n)

def hexOfBytes (bs : Bytes) : String :=
  if bs.isEmpty then "-" else
  String.ofList (bs.foldr (fun b acc => hexDigit (b.toNat / 16) :: hexDigit (b.toNat % 16) :: acc) [])

def hexVal (c : Char) : Option Nat :=
  if '0' ≤ c ∧ c ≤ '9' then some (c.toNat - 48)
  else if 'a' ≤ c ∧ c ≤ 'f' then some (c.toNat - 87)
  else if 'A' ≤ c ∧ c ≤ 'F' then some (c.toNat - 55)
  else none

def bytesOfHexChars : List Char → Option Bytes
  | [] => some []
  | [_] => none
  | a :: b :: rest =>
    match hexVal a, hexVal b, bytesOfHexChars rest with
    | some x, some y, some r => some (UInt8.ofNat (x * 16 + y) :: r)
    | _, _, _ => none

def bytesOfHex (s : String) : Option Bytes :=
  if s == "-" || s == "" then some [] else bytesOfHexChars s.toList

def natOfHex (s : String) : Option Nat :=
  s.toList.foldl (fun acc c => match acc, hexVal c with
    | some a, some v => some (a * 16 + v)
    | _, _ => none) (some 0)

def hex16 (n : Nat) : String :=
  String.ofList ((List.range 16).map (fun i => hexDigit (n / 16 ^ (15 - i) % 16)))

def showNum : Num → String
  | .int i => "I" ++ toString i
  | .uint n => "U" ++ toString n
  | .float b => "D" ++ hex16 b

mutual
def showJV : JV → String
  | .null => "N"
  | .bool true => "T"
  | .bool false => "F"
  | .num n => showNum n
  | .str s => "S" ++ hexOfBytes s
  | .arr vs => "A" ++ toString vs.length ++ showL vs
  | .obj kvs => "O" ++ toString kvs.length ++ showK kvs
def showL : List JV → String
  | [] => ""
  | v :: vs => "," ++ showJV v ++ showL vs
def showK : List (Bytes × JV) → String
  | [] => ""
  | (k, v) :: kvs => ",K" ++ hexOfBytes k ++ "," ++ showJV v ++ showK kvs
end

def parseNumTok (t : String) : Option Num :=
  match t.toList with
  | 'I' :: r => (String.ofList r).toInt?.map Num.int
  | 'U' :: r => (String.ofList r).toNat?.map Num.uint
  | 'D' :: r => (natOfHex (String.ofList r)).map Num.float
  | _ => none

mutual
/-- parse one tree from a token list (fuel = number of tokens) -/
def parseJV : Nat → List String → Option (JV × List String)
  | 0, _ => none
  | _, [] => none
  | fuel+1, t :: ts =>
    match t.toList with
    | ['N'] => some (.null, ts)
    | ['T'] => some (.bool true, ts)
    | ['F'] => some (.bool false, ts)
    | 'S' :: r => (bytesOfHex (String.ofList r)).map (fun b => (.str b, ts))
    | 'A' :: r =>
      match (String.ofList r).toNat? with
      | some n => (parseL fuel n ts).map (fun (vs, ts) => (.arr vs, ts))
      | none => none
    | 'O' :: r =>
      match (String.ofList r).toNat? with
      | some n => (parseK fuel n ts).map (fun (kvs, ts) => (.obj kvs, ts))
      | none => none
    | _ => (parseNumTok t).map (fun n => (.num n, ts))
def parseL : Nat → Nat → List String → Option (List JV × List String)
  | 0, _, _ => none
  | _, 0, ts => some ([], ts)
  | fuel+1, n+1, ts =>
    match parseJV fuel ts with
    | some (v, ts) => (parseL fuel n ts).map (fun (vs, ts) => (v :: vs, ts))
    | none => none
def parseK : Nat → Nat → List String → Option (List (Bytes × JV) × List String)
  | 0, _, _ => none
  | _, 0, ts => some ([], ts)
  | _, _+1, [] => none
  | fuel+1, n+1, k :: ts =>
    match k.toList with
    | 'K' :: r =>
      match bytesOfHex (String.ofList r), parseJV fuel ts with
      | some kb, some (v, ts) => (parseK fuel n ts).map (fun (kvs, ts) => ((kb, v) :: kvs, ts))
      | _, _ => none
    | _ => none
end

def parseTree (s : String) : Option JV :=
  let toks := s.splitOn ","
  match parseJV (2 * toks.length + 2) toks with
  | some (v, []) => some v
  | _ => none

def showRes {α} (f : α → String) : Res α → String
  | .ok a => "ok " ++ f a
  | .err _ => "err"
  | .panic _ => "panic"
  | .fuel => "fuel"

def showOrd : Ordering → String
  | .lt => "lt" | .eq => "eq" | .gt => "gt"

def showBool (b : Bool) : String := if b then "true" else "false"

end Jsonb.Wire
