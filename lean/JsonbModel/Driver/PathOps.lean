/-
Line-protocol ops for the path parsers:
  jpparse <hex>  → ok <canonical AST> | err | panic | fuel
  kpparse <hex>  → ok <canonical key paths> | err | panic | fuel
  jpprint <hex>  → parse, then Rust `Display`: ok <hex of the text> | err | …   (floats print as `?`)
  kpprint <hex>  → same for key paths
-/
import JsonbModel.Driver.Wire
import JsonbModel.PathAst
import JsonbModel.PathParser
import JsonbModel.PathPrint

namespace Jsonb.Driver
open Jsonb.Wire

def pathStep : List String → Option String
  | ["jpparse", h] =>
    match bytesOfHex h with
    | some b => some (showRes Canon.showJsonPath (parseJsonPath b))
    | none => some "bad-request"
  | ["kpparse", h] =>
    match bytesOfHex h with
    | some b => some (showRes Canon.showKeyPaths (parseKeyPaths b))
    | none => some "bad-request"
  | ["jpprint", h] =>
    match bytesOfHex h with
    | some b => some (showRes (fun jp => hexOfBytes (printJsonPath (fun _ => [63]) jp)) (parseJsonPath b))
    | none => some "bad-request"
  | ["kpprint", h] =>
    match bytesOfHex h with
    | some b => some (showRes (fun ps => hexOfBytes (printKeyPaths ps)) (parseKeyPaths b))
    | none => some "bad-request"
  | _ => none

end Jsonb.Driver
