/-
Line-protocol ops for the path parsers:
  jpparse <hex>  → ok <canonical AST> | err | panic | fuel
  kpparse <hex>  → ok <canonical key paths> | err | panic | fuel
  jpprint <hex>  → parse, then Rust `Display`: ok <hex of the text> | err | …   (floats print as `?`)
  kpprint <hex>  → same for key paths
-/
import JsonbModel.Driver.Wire
import JsonbModel.PathAst
import JsonbModel.PathParser
import JsonbModel.PathPrint

namespace Jsonb.Driver
open Jsonb.Wire

/-- literals compare as `Number`s in the Rust AST (`Int64(5) == UInt64(5)`): a non-negative
`I` literal and the `U` literal of the same value are the same for the round-trip comparison -/
def numNorm (t : String) : String :=
  (List.range 10).foldl (fun acc d => acc.replace ("(val I" ++ toString d) ("(val U" ++ toString d)) t

def pathStep : List String → Option String
  | ["jpparse", h] =>
    match bytesOfHex h with
    | some b => some (showRes Canon.showJsonPath (parseJsonPath b))
    | none => some "bad-request"
  | ["kpparse", h] =>
    match bytesOfHex h with
    | some b => some (showRes Canon.showKeyPaths (parseKeyPaths b))
    | none => some "bad-request"
  | ["jpprint", h] =>
    match bytesOfHex h with
    | some b => some (showRes (fun jp => hexOfBytes (printJsonPath (fun _ => [63]) jp)) (parseJsonPath b))
    | none => some "bad-request"
  | ["kpprint", h] =>
    match bytesOfHex h with
    | some b => some (showRes (fun ps => hexOfBytes (printKeyPaths ps)) (parseKeyPaths b))
    | none => some "bad-request"
  -- the intended structure is part of the request
  | "jpexpect" :: h :: rest =>
    match bytesOfHex h with
    | some b =>
      (match parseJsonPath b with
       | .ok jp => let got := Canon.showJsonPath jp
                   some (if got == " ".intercalate rest then "ok" else "MISMATCH got " ++ got)
       | .err _ => some "MISMATCH rejected"
       | .panic _ => some "panic"
       | .fuel => some "fuel")
    | none => some "bad-request"
  | ["kpexpect", h, want] =>
    match bytesOfHex h with
    | some b =>
      (match parseKeyPaths b with
       | .ok ps => let got := Canon.showKeyPaths ps
                   some (if got == want then "ok" else "MISMATCH got " ++ got)
       | .err _ => some "MISMATCH rejected"
       | .panic _ => some "panic"
       | .fuel => some "fuel")
    | none => some "bad-request"
  -- print → parse round trip (floats need the external formatter: outside the model's reach)
  | ["jproundtrip", h] =>
    match bytesOfHex h with
    | some b =>
      (match parseJsonPath b with
       | .ok jp =>
         if (Canon.showJsonPath jp).contains 'D' then some "skip" else
         let text := printJsonPath (fun _ => [63]) jp
         (match parseJsonPath text with
          | .ok jp2 => some (if numNorm (Canon.showJsonPath jp2) == numNorm (Canon.showJsonPath jp) then "ok"
                             else "MISMATCH reparsed " ++ Canon.showJsonPath jp2)
          | _ => some ("MISMATCH printout rejected " ++ hexOfBytes text))
       | .err _ => some "not-accepted"
       | .panic _ => some "panic"
       | .fuel => some "fuel")
    | none => some "bad-request"
  | ["kproundtrip", h] =>
    match bytesOfHex h with
    | some b =>
      (match parseKeyPaths b with
       | .ok ps =>
         let text := printKeyPaths ps
         (match parseKeyPaths text with
          | .ok ps2 => some (if Canon.showKeyPaths ps2 == Canon.showKeyPaths ps then "ok"
                             else "MISMATCH reparsed " ++ Canon.showKeyPaths ps2)
          | _ => some ("MISMATCH printout rejected " ++ hexOfBytes text))
       | .err _ => some "not-accepted"
       | .panic _ => some "panic"
       | .fuel => some "fuel")
    | none => some "bad-request"
  | _ => none

end Jsonb.Driver
