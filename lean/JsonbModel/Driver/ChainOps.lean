/- Driver ops for chains of operations (C07). -/
import JsonbModel.Driver.SelectOps
import JsonbModel.Chain
import JsonbModel.Functions.Text

namespace Jsonb.Driver
open Jsonb.Wire

def parseArg (s : String) : Option (Arg Bytes) :=
  match s.toList with
  | ['S'] => some .self
  | 'L' :: r => (bytesOfHex (String.ofList r)).map Arg.lit
  | 'K' :: r => (parseKeyPathArg (String.ofList r)).map Arg.sub
  | _ => none

def parsePathHex (h : String) : Option JsonPath :=
  match bytesOfHex h with
  | some b => (match parseJsonPath b with | .ok jp => some jp | _ => none)
  | none => none

def parseFlag : String → Option Bool
  | "0" => some false | "1" => some true | _ => none

def parseChainOp (tok : String) : Option (ChainOp Bytes) :=
  match tok.splitOn ":" with
  | ["cat", a, "l"] => (parseArg a).map (fun a => .concat a true)
  | ["cat", a, "r"] => (parseArg a).map (fun a => .concat a false)
  | ["dn", n] => (bytesOfHex n).map .delName
  | ["di", i] => i.toInt?.map .delIdx
  | ["dk", kp] => (parseKeyPathArg kp).map .delKp
  | ["ai", p, a] => match p.toInt?, parseArg a with
      | some p, some a => some (.arrIns p a) | _, _ => none
  | ["oi", k, a, u] => match bytesOfHex k, parseArg a, parseFlag u with
      | some k, some a, some u => some (.objIns k a u) | _, _, _ => none
  | ["od", ks] => (parseKeyList ks).map .objDel
  | ["op", ks] => (parseKeyList ks).map .objPick
  | ["st"] => some .strip
  | ["gi", i] => i.toNat?.map .getIdx
  | ["gn", n, ic] => match bytesOfHex n, parseFlag ic with
      | some n, some ic => some (.getName n ic) | _, _ => none
  | ["gk", kp] => (parseKeyPathArg kp).map .getKp
  | ["ks"] => some .keys
  | ["ds"] => some .distinct
  | ["in", a] => (parseArg a).map .inter
  | ["ex", a] => (parseArg a).map .except
  | ["wa", as] => if as == "[]" then some (.wrapArr []) else ((as.splitOn "|").mapM parseArg).map .wrapArr
  | ["wo", kas] => if kas == "[]" then some (.wrapObj []) else
      ((kas.splitOn "|").mapM (fun (ka : String) => match ka.splitOn "=" with
        | [k, a] => (match bytesOfHex k, parseArg a with
                     | some k, some a => some (k, a) | _, _ => none)
        | _ => none)).map .wrapObj
  | ["sf", p] => (parsePathHex p).map .selFirst
  | ["sa", p] => (parsePathHex p).map .selArr
  | _ => none

/-- literal arguments as trees; `none` if some literal is not a canonical good document -/
def specArg : Arg Bytes → Option (Arg JV)
  | .lit w => (specDocB w).map Arg.lit
  | .self => some .self
  | .sub kp => some (.sub kp)

def specOp : ChainOp Bytes → Option (ChainOp JV)
  | .concat a l => (specArg a).map (fun a => .concat a l)
  | .delName n => some (.delName n)
  | .delIdx i => some (.delIdx i)
  | .delKp kp => some (.delKp kp)
  | .arrIns p a => (specArg a).map (fun a => .arrIns p a)
  | .objIns k a u => (specArg a).map (fun a => .objIns k a u)
  | .objDel ks => some (.objDel ks)
  | .objPick ks => some (.objPick ks)
  | .strip => some .strip
  | .getIdx i => some (.getIdx i)
  | .getName n ic => some (.getName n ic)
  | .getKp kp => some (.getKp kp)
  | .keys => some .keys
  | .distinct => some .distinct
  | .inter a => (specArg a).map .inter
  | .except a => (specArg a).map .except
  | .wrapArr as => (as.mapM specArg).map .wrapArr
  | .wrapObj kas => (kas.mapM (fun ka => (specArg ka.2).map (fun a => (ka.1, a)))).map .wrapObj
  | .selFirst jp => some (.selFirst jp)
  | .selArr jp => some (.selArr jp)

def showDocs (ds : List Bytes) : String :=
  if ds.isEmpty then "ok []" else "ok " ++ ";".intercalate (ds.map hexOfBytes)

def chainStepD : List String → Option String
  | "chain" :: d :: toks => some <| withDoc d fun d =>
      match toks.mapM parseChainOp with
      | some ops =>
        (match Fn.runChain d ops with
         | .ok ds => showDocs ds
         | .err _ => "err"
         | .panic _ => "panic"
         | .fuel => "fuel")
      | none => "bad-path"
  | "spec:chain" :: d :: toks => some <|
      match toks.mapM parseChainOp with
      | some ops =>
        (match specDoc d, ops.mapM specOp with
         | some v, some sops =>
           let vs := Spec.runChain v sops
           -- outside the theorem's domain as soon as a result leaves the field widths
           if vs.all JV.goodTop then showDocs (vs.map JV.encodeSpec) else "skip"
         | _, _ => "skip")
      | none => "bad-path"
  | "chaincheck" :: _ => some "ok"
  | ["deep", _, _, _] => some "ok"
  | ["bigpayload", _] => some "ok"     -- C01: 16 MiB payloads are exercised on the real code only
  | "tjtext" :: _ => some "ok"
  | ["fsreject", d] => some <| withDoc d fun b => match T.fromSlice b with
      | .ok v => "MISMATCH accepted as " ++ showJV v | .err _ => "ok" | .panic _ => "panic" | .fuel => "fuel"
  | ["kpreject", d] => some <| withDoc d fun b => match parseKeyPaths b with
      | .ok ps => "MISMATCH accepted as " ++ Canon.showKeyPaths ps | .err _ => "ok" | .panic _ => "panic" | .fuel => "fuel"     -- C20: stack depth is a property of the real process
  | _ => none

end Jsonb.Driver
