/- Driver ops for `to_string` / `to_pretty_string` and the strict JSON reader. -/
import JsonbModel.Driver.OrderOps
import JsonbModel.Functions.ToString
import JsonbModel.Spec.StrictJson

namespace Jsonb.Driver
open Jsonb.Wire

/-- float format table shipped with the request: `bits:hex;bits:hex` (`-` = empty) -/
def parseFmt (s : String) : Option (List (Nat × Bytes)) :=
  if s == "-" then some [] else
    (s.splitOn ";").mapM (fun kv => match kv.splitOn ":" with
      | [b, h] => match natOfHex b, bytesOfHex h with
        | some b, some h => some (b, h)
        | _, _ => none
      | _ => none)

def fmtOf (tbl : List (Nat × Bytes)) (bits : Nat) : Bytes :=
  match tbl.find? (fun p => p.1 == bits) with
  | some p => p.2
  | none => "?".toUTF8.toList

/-- `GoodFmt`: the external formatter's output is a plain RFC 8259 number whose correctly
rounded value is exactly the float it stands for (checked per instance, never assumed) -/
def goodFmt (tbl : List (Nat × Bytes)) : Bool :=
  tbl.all (fun p => match Strict.number p.2 with
    | some (.float b, []) => b == p.1
    | _ => false)

mutual
def allUnsigned : JV → Bool
  | .num (.int i) => decide (i < 0)
  | .arr vs => allUnsignedL vs
  | .obj kvs => allUnsignedK kvs
  | _ => true
def allUnsignedL : List JV → Bool
  | [] => true
  | v :: vs => allUnsigned v && allUnsignedL vs
def allUnsignedK : List (Bytes × JV) → Bool
  | [] => true
  | (_, v) :: kvs => allUnsigned v && allUnsignedK kvs
end

def tostrCheck (tbl : List (Nat × Bytes)) (doc : Bytes) : String :=
  match specDocB doc with
  | none => "skip"
  | some v =>
    if !goodFmt tbl then "skip" else
    match Fn.toStringDoc (fmtOf tbl) false doc, Fn.toStringDoc (fmtOf tbl) true doc with
    | .ok t, .ok tp =>
      (match Strict.parse t, Strict.parse tp with
       | some v1, some v2 =>
         if !Spec.valEq v1 v then "compact text denotes another document"
         else if !Spec.valEq v2 v then "pretty text denotes another document"
         else if allUnsigned v && JV.encodeSpec v1 != doc then "re-encoding the parsed text differs"
         else if Strict.stripWs false tp != t then "pretty differs from compact beyond whitespace"
         else "ok"
       | none, _ => "compact text is not strict JSON"
       | _, none => "pretty text is not strict JSON")
    | _, _ => "to_string failed"

def textStep : List String → Option String
  | ["tostr", d, f] => some <| withDoc d fun b => match parseFmt f with
      | some tbl => showRes hexOfBytes (Fn.toStringDoc (fmtOf tbl) false b) | none => "bad-request"
  | ["topretty", d, f] => some <| withDoc d fun b => match parseFmt f with
      | some tbl => showRes hexOfBytes (Fn.toStringDoc (fmtOf tbl) true b) | none => "bad-request"
  | ["tostrcheck", d, f] => some <| withDoc d fun b => match parseFmt f with
      | some tbl => tostrCheck tbl b | none => "bad-request"
  -- RFC 8259 documents must be accepted with the meaning the strict reader gives them
  | ["spec:jparse", h] => some <| withDoc h fun b => match Strict.parse b with
      | some v => "ok " ++ showJV v
      | none => "skip"
  | ["strict", h] => some <| withDoc h fun b => showOpt showJV (Strict.parse b)
  | _ => none

end Jsonb.Driver
