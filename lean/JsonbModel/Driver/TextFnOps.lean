/- Driver ops `t:<op>`: the whole public function including its JSON-text branch. -/
import JsonbModel.Driver.SelectOps
import JsonbModel.Driver.SerdeOps
import JsonbModel.Functions.Text

namespace Jsonb.Driver
open Jsonb.Wire

def textFnStep : List String → Option String
  | ["t:arrlen", d] => some <| withDoc d fun b => showOptRes toString (T.arrayLength b)
  | ["t:getidx", d, i] => some <| withDoc d fun b => match i.toNat? with
      | some i => showOptRes hexOfBytes (T.getByIndex b i) | none => "bad-request"
  | ["t:getname", d, n, ic] => some <| with2 d n fun b n => showOptRes hexOfBytes (T.getByName b n (ic == "1"))
  | ["t:getkp", d, kp] => some <| withDoc d fun b => match parseKeyPathArg kp with
      | some kp => showOptRes hexOfBytes (T.getByKeypath b kp) | none => "bad-request"
  | ["t:keys", d] => some <| withDoc d fun b => showOptRes hexOfBytes (T.objectKeys b)
  | ["t:typeof", d] => some <| withDoc d fun b => showRes id (T.typeOf b)
  | ["t:asnull", d] => some <| withDoc d fun b => showOptRes (fun _ => "null") (T.asNull b)
  | ["t:asbool", d] => some <| withDoc d fun b => showOptRes showBool (T.asBool b)
  | ["t:asnum", d] => some <| withDoc d fun b => showOptRes showNum (T.asNumber b)
  | ["t:asstr", d] => some <| withDoc d fun b => showOptRes hexOfBytes (T.asStr b)
  | ["t:existsall", d, ks] => some <| withDoc d fun b => match parseKeyList ks with
      | some ks => showRes showBool (T.existsAllKeys b ks) | none => "bad-request"
  | ["t:contains", a, b] => some <| with2 a b fun a b => showRes showBool (T.contains a b)
  | ["t:cmp", a, b] => some <| with2 a b fun a b => showRes showOrd (T.compare a b)
  | ["t:concat", p, l, r] => some <| with3 p l r fun p l r => showBuf p (T.concat l r p)
  | ["t:arrins", p, d, pos, n] => some <| with3 p d n fun p d n => match pos.toInt? with
      | some pos => showBuf p (T.arrayInsert d pos n p) | none => "bad-request"
  | ["t:objins", p, d, k, n, u] => some <| with3 p d n fun p d n => match bytesOfHex k with
      | some k => showBuf p (T.objectInsert d k n (u == "1") p) | none => "bad-request"
  | ["t:distinct", p, d] => some <| with2 p d fun p d => showBuf p (T.arrayDistinct d p)
  | ["t:inter", p, a, b] => some <| with3 p a b fun p a b => showBuf p (T.arrayIntersection a b p)
  | ["t:except", p, a, b] => some <| with3 p a b fun p a b => showBuf p (T.arrayExcept a b p)
  | ["t:overlap", a, b] => some <| with2 a b fun a b => showRes showBool (T.arrayOverlap a b)
  | ["t:objdel", p, d, ks] => some <| with2 p d fun p d => match parseKeyList ks with
      | some ks => showBuf p (T.objectDelete d ks p) | none => "bad-request"
  | ["t:objpick", p, d, ks] => some <| with2 p d fun p d => match parseKeyList ks with
      | some ks => showBuf p (T.objectPick d ks p) | none => "bad-request"
  | ["t:travstr", d, pr] => some <| withDoc d fun b => match parsePred pr with
      | some pr => showRes showBool (T.traverseCheckString b pr) | none => "bad-request"
  | ["t:delname", p, d, n] => some <| with3 p d n fun p d n => showBuf p (T.deleteByName d n p)
  | ["t:delidx", p, d, i] => some <| with2 p d fun p d => match i.toInt? with
      | some i => showBuf p (T.deleteByIndex d i p) | none => "bad-request"
  | ["t:strip", p, d] => some <| with2 p d fun p d => showBuf p (T.stripNulls d p)
  | ["t:toserde", d] => some <| withDoc d fun b => showRes showSJ (T.toSerdeJson b)
  | ["t:cmpkey", p, d] => some <| with2 p d fun p d => showBuf p (T.convertToComparable d p)
  | ["t:pathexists", d, path] => some <| withDoc d fun d => withPath path fun jp => showRes showBool (T.pathExists d jp)
  | ["t:getpath", p, d, path] => some <| with2 p d fun p d => withPath path fun jp => showSel p (T.getByPathMode .mixed d jp p)
  | ["fsexpect", d, want] => some <| withDoc d fun b =>
      match T.fromSlice b with
      | .ok v => if showJV v == want then "ok" else "MISMATCH text read as " ++ showJV v
      | .err _ => "MISMATCH rejected"
      | .panic _ => "panic"
      | .fuel => "fuel"
  | ["t:fromslice", d] => some <| withDoc d fun b => showRes showJV (T.fromSlice b)
  | ["t:lazyvec", d] => some <| withDoc d fun b => showRes hexOfBytes (T.lazyToVec b)
  | _ => none

end Jsonb.Driver
