/-
Driver ops for the accessors: `<op>` runs the byte-level implementation model, `spec:<op>`
answers with the spec function applied to the decoded tree (re-encoded with `encodeSpec`).
-/
import JsonbModel.Driver.Wire
import JsonbModel.Functions.Access
import JsonbModel.Spec.Access

namespace Jsonb.Driver
open Jsonb.Wire

def showOptRes {α} (f : α → String) : Res (Option α) → String
  | .ok (some a) => "ok " ++ f a
  | .ok none => "none"
  | .err _ => "err"
  | .panic _ => "panic"
  | .fuel => "fuel"

def showOpt {α} (f : α → String) : Option α → String
  | some a => "ok " ++ f a
  | none => "none"

def showList {α} (f : α → String) (xs : List α) : String :=
  if xs.isEmpty then "[]" else ",".intercalate (xs.map f)

def parseKeyPathTok (t : String) : Option KeyPath :=
  match t.toList with
  | 'i' :: r => (String.ofList r).toInt?.map KeyPath.index
  | 'q' :: r => (bytesOfHex (String.ofList r)).map KeyPath.quoted
  | 'n' :: r => (bytesOfHex (String.ofList r)).map KeyPath.name
  | _ => none

def parseKeyPathArg (s : String) : Option (List KeyPath) :=
  if s == "-" then some [] else (s.splitOn ",").mapM parseKeyPathTok

def parseKeyList (s : String) : Option (List Bytes) :=
  if s == "[]" then some [] else (s.splitOn ";").mapM bytesOfHex

def parsePred (s : String) : Option (Bytes → Bool) :=
  match s.splitOn ":" with
  | ["eq", h] => (bytesOfHex h).map (fun b => fun x => x == b)
  | ["has", h] => (bytesOfHex h).bind (fun b => match b with | [c] => some (fun x => x.contains c) | _ => none)
  | ["len", n] => n.toNat?.map (fun k => fun x => x.length ≥ k)
  | _ => none

/-- decode a document argument for the spec ops; `none` outside the domain (not canonical) -/
def specDoc (h : String) : Option JV :=
  match bytesOfHex h with
  | some b =>
    match parseJsonb b with
    | .ok v => if JV.goodTop v && JV.encodeSpec v == b then some v else none
    | _ => none
  | none => none

def encDoc (v : JV) : String := hexOfBytes (JV.encodeSpec v)

def withDoc (h : String) (f : Bytes → String) : String :=
  match bytesOfHex h with
  | some b => f b
  | none => "bad-request"

def withSpec (h : String) (f : JV → String) : String :=
  match specDoc h with
  | some v => f v
  | none => "skip"

def accessStep : List String → Option String
  | ["arrlen", d] => some <| withDoc d fun b => showOptRes toString (Fn.arrayLength b)
  | ["spec:arrlen", d] => some <| withSpec d fun v => showOpt toString (Spec.arrayLength v)
  | ["getidx", d, i] => some <| withDoc d fun b => match i.toNat? with
      | some i => showOptRes hexOfBytes (Fn.getByIndex b i) | none => "bad-request"
  | ["spec:getidx", d, i] => some <| withSpec d fun v => match i.toNat? with
      | some i => showOpt encDoc (Spec.getByIndex v i) | none => "bad-request"
  | ["getname", d, n, ic] => some <| withDoc d fun b => match bytesOfHex n with
      | some n => showOptRes hexOfBytes (Fn.getByName b n (ic == "1")) | none => "bad-request"
  | ["spec:getname", d, n, ic] => some <| withSpec d fun v => match bytesOfHex n with
      | some n => showOpt encDoc (Spec.getByName v n (ic == "1")) | none => "bad-request"
  | ["getkp", d, kp] => some <| withDoc d fun b => match parseKeyPathArg kp with
      | some kp => showOptRes hexOfBytes (Fn.getByKeypath b kp) | none => "bad-request"
  | ["spec:getkp", d, kp] => some <| withSpec d fun v => match parseKeyPathArg kp with
      | some kp => showOpt encDoc (Spec.getByKeypath v kp) | none => "bad-request"
  | ["keys", d] => some <| withDoc d fun b => showOptRes hexOfBytes (Fn.objectKeys b)
  | ["spec:keys", d] => some <| withSpec d fun v => showOpt encDoc (Spec.objectKeys v)
  | ["each", d] => some <| withDoc d fun b =>
      showOptRes (showList fun (k, v) => hexOfBytes k ++ ":" ++ hexOfBytes v) (Fn.objectEach b)
  | ["spec:each", d] => some <| withSpec d fun v =>
      showOpt (showList fun (k, v) => hexOfBytes k ++ ":" ++ encDoc v) (Spec.objectEach v)
  | ["vals", d] => some <| withDoc d fun b => showOptRes (showList hexOfBytes) (Fn.arrayValues b)
  | ["spec:vals", d] => some <| withSpec d fun v => showOpt (showList encDoc) (Spec.arrayValues v)
  | ["typeof", d] => some <| withDoc d fun b => showRes id (Fn.typeOf b)
  | ["spec:typeof", d] => some <| withSpec d fun v => "ok " ++ Spec.typeOf v
  | ["asnull", d] => some <| withDoc d fun b => showOptRes (fun _ => "null") (Fn.asNull b)
  | ["spec:asnull", d] => some <| withSpec d fun v => showOpt (fun _ => "null") (Spec.asNull v)
  | ["asbool", d] => some <| withDoc d fun b => showOptRes showBool (Fn.asBool b)
  | ["spec:asbool", d] => some <| withSpec d fun v => showOpt showBool (Spec.asBool v)
  | ["asnum", d] => some <| withDoc d fun b => showOptRes showNum (Fn.asNumber b)
  | ["spec:asnum", d] => some <| withSpec d fun v => showOpt showNum ((Spec.asNumber v).map Num.norm)
  | ["asstr", d] => some <| withDoc d fun b => showOptRes hexOfBytes (Fn.asStr b)
  | ["spec:asstr", d] => some <| withSpec d fun v => showOpt hexOfBytes (Spec.asStr v)
  | ["asi64", d] => some <| withDoc d fun b => showOptRes toString (Fn.asI64 b)
  | ["spec:asi64", d] => some <| withSpec d fun v => showOpt toString ((Spec.asNumber v).bind Num.asI64)
  | ["asu64", d] => some <| withDoc d fun b => showOptRes toString (Fn.asU64 b)
  | ["spec:asu64", d] => some <| withSpec d fun v => showOpt toString ((Spec.asNumber v).bind Num.asU64)
  | ["isarr", d] => some <| withDoc d fun b => showBool (Fn.isArray b)
  | ["spec:isarr", d] => some <| withSpec d fun v => showBool (Spec.isArray v)
  | ["isobj", d] => some <| withDoc d fun b => showBool (Fn.isObject b)
  | ["spec:isobj", d] => some <| withSpec d fun v => showBool (Spec.isObject v)
  | ["tobool", d] => some <| withDoc d fun b => showRes showBool (Fn.toBool b)
  | ["toi64", d] => some <| withDoc d fun b => showRes toString (Fn.toI64 b)
  | ["tou64", d] => some <| withDoc d fun b => showRes toString (Fn.toU64 b)
  | ["strf64", s] => some <| withDoc s fun b => showOpt hex16 (Fn.parseF64 b)
  | ["existsall", d, ks] => some <| withDoc d fun b => match parseKeyList ks with
      | some ks => showRes showBool (Fn.existsAllKeys b ks) | none => "bad-request"
  | ["spec:existsall", d, ks] => some <| withSpec d fun v => match parseKeyList ks with
      | some ks => "ok " ++ showBool (Spec.existsAllKeys v ks) | none => "bad-request"
  | ["existsany", d, ks] => some <| withDoc d fun b => match parseKeyList ks with
      | some ks => showRes showBool (Fn.existsAnyKeys b ks) | none => "bad-request"
  | ["spec:existsany", d, ks] => some <| withSpec d fun v => match parseKeyList ks with
      | some ks => "ok " ++ showBool (Spec.existsAnyKeys v ks) | none => "bad-request"
  | ["travstr", d, p] => some <| withDoc d fun b => match parsePred p with
      | some p => showRes showBool (Fn.traverseCheckString b p) | none => "bad-request"
  | ["spec:travstr", d, p] => some <| withSpec d fun v => match parsePred p with
      | some p => "ok " ++ showBool (Spec.anyString p v) | none => "bad-request"
  | _ => none

end Jsonb.Driver
