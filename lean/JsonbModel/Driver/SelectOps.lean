/- Driver ops for JSONPath evaluation (selector API and the functions.rs wrappers). -/
import JsonbModel.Driver.EditOps
import JsonbModel.Selector
import JsonbModel.Spec.PathEval
import JsonbModel.PathParser

namespace Jsonb.Driver
open Jsonb.Wire

def parseMode : String → Option Sel.Mode
  | "first" => some .first | "array" => some .array | "all" => some .all | "mixed" => some .mixed
  | _ => none

def showOffsets (pre : Bytes) (data : Bytes) (offs : List Nat) : String :=
  (if isPrefix pre data then "ok " ++ hexOfBytes (data.drop pre.length) else "ok-prefix-clobbered " ++ hexOfBytes data)
    ++ " " ++ (if offs.isEmpty then "[]" else ",".intercalate (offs.map toString))

def showSel (pre : Bytes) : Res (Bytes × List Nat) → String
  | .ok (d, o) => showOffsets pre d o
  | .err e => if e == "InvalidJsonPathPredicate" then "err:InvalidJsonPathPredicate" else "err"
  | .panic _ => "panic"
  | .fuel => "fuel"

def withPath (h : String) (f : JsonPath → String) : String :=
  match bytesOfHex h with
  | some b => (match parseJsonPath b with
               | .ok jp => f jp
               | _ => "bad-path")
  | none => "bad-request"

/-- spec answer for a selection: encodings of the items the path denotes, per result mode -/
def specSelect (mode : Sel.Mode) (pre : Bytes) (v : JV) (jp : JsonPath) : String :=
  match Spec.evalPaths (Sel.selFuel (JV.encodeSpec v) jp) v none jp with
  | none => "err"
  | some items =>
    if Sel.isPredicate jp then
      "ok " ++ hexOfBytes (JV.encodeSpec (.bool (!items.isEmpty))) ++ " []"
    else
      let each (its : List JV) : String :=
        let encs := its.map JV.encodeSpec
        let ends := (encs.foldl (fun (acc : Nat × List Nat) e => (acc.1 + e.length, acc.2 ++ [acc.1 + e.length])) (pre.length, [])).2
        "ok " ++ hexOfBytes encs.flatten ++ " " ++ (if ends.isEmpty then "[]" else ",".intercalate (ends.map toString))
      let asArr : String :=
        let e := JV.encodeSpec (.arr items)
        "ok " ++ hexOfBytes e ++ " " ++ toString (pre.length + e.length)
      match mode with
      | .all => each items
      | .first => each (items.take 1)
      | .array => asArr
      | .mixed => if items.length > 1 then asArr else each items

def selectStep : List String → Option String
  | ["select", m, p, d, path] => some <| with2 p d fun p d => match parseMode m with
      | some mode => withPath path fun jp => showSel p (Sel.select jp mode d p [] (Sel.selFuel d jp))
      | none => "bad-request"
  | ["spec:select", m, p, d, path] => some <| withDoc p fun p => withSpec d fun v => match parseMode m with
      | some mode => withPath path fun jp => specSelect mode p v jp
      | none => "bad-request"
  | ["pexists", d, path] => some <| withDoc d fun d => withPath path fun jp =>
      showRes showBool (Sel.exists_ jp d (Sel.selFuel d jp))
  | ["spec:pexists", d, path] => some <| withSpec d fun v => withPath path fun jp =>
      if Sel.isPredicate jp then "ok true" else
      match Spec.evalPaths (Sel.selFuel (JV.encodeSpec v) jp) v none jp with
      | some items => "ok " ++ showBool (!items.isEmpty)
      | none => "err"
  | ["pmatch", d, path] => some <| withDoc d fun d => withPath path fun jp =>
      match Sel.predicateMatch jp d (Sel.selFuel d jp) with
      | .ok b => "ok " ++ showBool b
      | .err e => if e == "InvalidJsonPathPredicate" then "err:InvalidJsonPathPredicate" else "err"
      | .panic _ => "panic"
      | .fuel => "fuel"
  | ["spec:pmatch", d, path] => some <| withSpec d fun v => withPath path fun jp =>
      if !Sel.isPredicate jp then "err:InvalidJsonPathPredicate" else
      match Spec.evalPaths (Sel.selFuel (JV.encodeSpec v) jp) v none jp with
      | some items => "ok " ++ showBool (!items.isEmpty)
      | none => "err"
  -- the functions.rs wrappers (JSONB input): same selector with a fixed mode
  | ["getpath", p, d, path] => some <| with2 p d fun p d => withPath path fun jp =>
      showSel p (Sel.select jp .mixed d p [] (Sel.selFuel d jp))
  | ["getpathfirst", p, d, path] => some <| with2 p d fun p d => withPath path fun jp =>
      showSel p (Sel.select jp .first d p [] (Sel.selFuel d jp))
  | ["getpatharray", p, d, path] => some <| with2 p d fun p d => withPath path fun jp =>
      showSel p (Sel.select jp .array d p [] (Sel.selFuel d jp))
  | ["pathexists", d, path] => some <| withDoc d fun d => withPath path fun jp =>
      showRes showBool (Sel.exists_ jp d (Sel.selFuel d jp))
  | ["pathmatch", d, path] => some <| withDoc d fun d => withPath path fun jp =>
      match Sel.predicateMatch jp d (Sel.selFuel d jp) with
      | .ok b => "ok " ++ showBool b
      | .err e => if e == "InvalidJsonPathPredicate" then "err:InvalidJsonPathPredicate" else "err"
      | .panic _ => "panic"
      | .fuel => "fuel"
  | ["modes", _, _] => some "ok"
  | "tj" :: _ => some "ok"     -- C11 master differential: evaluated on the real code alone
  | ["sniffbig", _] => some "ok"
  -- C18 cast oracle: evaluated on the real code alone (exactness of the i64 / u64 / f64 views)
  | ["numcast", _] => some "ok"
  | "selreuse" :: _ => some "ok"
  | _ => none

end Jsonb.Driver
