/-
Driver ops for editors and set functions.  `<op> <pre> …` runs the byte-level model with the
prior buffer content `pre` and prints the appended part (or that the prefix was clobbered);
`spec:<op> <pre> …` prints the encoding of the tree-level result, which must not depend on `pre`.
-/
import JsonbModel.Driver.AccessOps
import JsonbModel.Functions.Edit
import JsonbModel.Spec.Edit

namespace Jsonb.Driver
open Jsonb.Wire

def isPrefix : Bytes → Bytes → Bool
  | [], _ => true
  | _ :: _, [] => false
  | a :: as, b :: bs => a == b && isPrefix as bs

def showErr (e : String) : String :=
  if e == "InvalidJsonType" || e == "InvalidObject" || e == "ObjectDuplicateKey" then "err:" ++ e else "err"

/-- result of a buffer-writing function given the prior content -/
def showBuf (pre : Bytes) : Res Bytes → String
  | .ok b => if isPrefix pre b then "ok " ++ hexOfBytes (b.drop pre.length) else "ok-prefix-clobbered " ++ hexOfBytes b
  | .err e => showErr e
  | .panic _ => "panic"
  | .fuel => "fuel"

def parseDocList (s : String) : Option (List Bytes) :=
  if s == "[]" then some [] else (s.splitOn ";").mapM bytesOfHex

def parseKvList (s : String) : Option (List (Bytes × Bytes)) :=
  if s == "[]" then some [] else
    (s.splitOn ";").mapM (fun kv => match kv.splitOn ":" with
      | [k, d] => match bytesOfHex k, bytesOfHex d with
        | some k, some d => some (k, d)
        | _, _ => none
      | _ => none)

def specDocB (b : Bytes) : Option JV :=
  match parseJsonb b with
  | .ok v => if JV.goodTop v && JV.encodeSpec v == b then some v else none
  | _ => none

def okDoc (v : JV) : String := "ok " ++ encDoc v
def optDoc (code : String) : Option JV → String
  | some v => okDoc v
  | none => "err:" ++ code

def with2 (a b : String) (f : Bytes → Bytes → String) : String :=
  match bytesOfHex a, bytesOfHex b with
  | some x, some y => f x y
  | _, _ => "bad-request"

def with3 (a b c : String) (f : Bytes → Bytes → Bytes → String) : String :=
  match bytesOfHex a, bytesOfHex b, bytesOfHex c with
  | some x, some y, some z => f x y z
  | _, _, _ => "bad-request"

def spec2 (a b : String) (f : JV → JV → String) : String :=
  match specDoc a, specDoc b with
  | some x, some y => f x y
  | _, _ => "skip"

def editStep : List String → Option String
  | ["concat", p, l, r] => some <| with3 p l r fun p l r => showBuf p (Fn.concat l r p)
  | ["spec:concat", _, l, r] => some <| spec2 l r fun l r => okDoc (Spec.concat l r)
  | ["delname", p, d, n] => some <| with3 p d n fun p d n => showBuf p (Fn.deleteByName d n p)
  | ["spec:delname", _, d, n] => some <| withSpec d fun v => match bytesOfHex n with
      | some n => optDoc "InvalidJsonType" (Spec.deleteByName v n) | none => "bad-request"
  | ["delidx", p, d, i] => some <| with2 p d fun p d => match i.toInt? with
      | some i => showBuf p (Fn.deleteByIndex d i p) | none => "bad-request"
  | ["spec:delidx", _, d, i] => some <| withSpec d fun v => match i.toInt? with
      | some i => optDoc "InvalidJsonType" (Spec.deleteByIndex v i) | none => "bad-request"
  | ["delkp", p, d, kp] => some <| with2 p d fun p d => match parseKeyPathArg kp with
      | some kp => showBuf p (Fn.deleteByKeypath d kp p) | none => "bad-request"
  | ["spec:delkp", _, d, kp] => some <| withSpec d fun v => match parseKeyPathArg kp with
      | some kp => optDoc "InvalidJsonType" (Spec.deleteByKeypath v kp) | none => "bad-request"
  | ["arrins", p, d, pos, n] => some <| with3 p d n fun p d n => match pos.toInt? with
      | some pos => showBuf p (Fn.arrayInsert d pos n p) | none => "bad-request"
  | ["spec:arrins", _, d, pos, n] => some <| spec2 d n fun v n => match pos.toInt? with
      | some pos => okDoc (Spec.arrayInsert v pos n) | none => "bad-request"
  | ["objins", p, d, k, n, u] => some <| with3 p d n fun p d n => match bytesOfHex k with
      | some k => showBuf p (Fn.objectInsert d k n (u == "1") p) | none => "bad-request"
  | ["spec:objins", _, d, k, n, u] => some <| spec2 d n fun v n => match bytesOfHex k with
      | some k => (match Spec.objectInsert v k n (u == "1") with
          | .ok r => okDoc r
          | .error .invalidObject => "err:InvalidObject"
          | .error .duplicateKey => "err:ObjectDuplicateKey")
      | none => "bad-request"
  | ["objdel", p, d, ks] => some <| with2 p d fun p d => match parseKeyList ks with
      | some ks => showBuf p (Fn.objectFilter false d ks p) | none => "bad-request"
  | ["spec:objdel", _, d, ks] => some <| withSpec d fun v => match parseKeyList ks with
      | some ks => optDoc "InvalidObject" (Spec.objectDelete v ks) | none => "bad-request"
  | ["objpick", p, d, ks] => some <| with2 p d fun p d => match parseKeyList ks with
      | some ks => showBuf p (Fn.objectFilter true d ks p) | none => "bad-request"
  | ["spec:objpick", _, d, ks] => some <| withSpec d fun v => match parseKeyList ks with
      | some ks => optDoc "InvalidObject" (Spec.objectPick v ks) | none => "bad-request"
  | ["strip", p, d] => some <| with2 p d fun p d => showBuf p (Fn.stripNulls d p)
  | ["spec:strip", _, d] => some <| withSpec d fun v => okDoc (Spec.stripNulls v)
  | ["barr", p, ds] => some <| withDoc p fun p => match parseDocList ds with
      | some ds => showBuf p (Fn.buildArray ds p) | none => "bad-request"
  | ["spec:barr", _, ds] => some <| match parseDocList ds with
      | some ds => (match ds.mapM specDocB with
          | some vs => okDoc (Spec.buildArray vs)
          | none => "skip")
      | none => "bad-request"
  | ["bobj", p, kvs] => some <| withDoc p fun p => match parseKvList kvs with
      | some kvs => showBuf p (Fn.buildObject kvs p) | none => "bad-request"
  | ["spec:bobj", _, kvs] => some <| match parseKvList kvs with
      | some kvs => (match kvs.mapM (fun kv => (specDocB kv.2).map (fun v => (kv.1, v))) with
          | some kvs => okDoc (Spec.buildObject kvs)
          | none => "skip")
      | none => "bad-request"
  | ["distinct", p, d] => some <| with2 p d fun p d => showBuf p (Fn.arrayDistinct d p)
  | ["spec:distinct", _, d] => some <| withSpec d fun v => okDoc (Spec.arrayDistinct v)
  | ["inter", p, a, b] => some <| with3 p a b fun p a b => showBuf p (Fn.arraySetOp true a b p)
  | ["spec:inter", _, a, b] => some <| spec2 a b fun a b => okDoc (Spec.arrayIntersection a b)
  | ["except", p, a, b] => some <| with3 p a b fun p a b => showBuf p (Fn.arraySetOp false a b p)
  | ["spec:except", _, a, b] => some <| spec2 a b fun a b => okDoc (Spec.arrayExcept a b)
  | ["overlap", a, b] => some <| with2 a b fun a b => showRes showBool (Fn.arrayOverlap a b)
  | ["spec:overlap", a, b] => some <| spec2 a b fun a b => "ok " ++ showBool (Spec.arrayOverlap a b)
  | _ => none

end Jsonb.Driver
