/-
Line-protocol requests about the number order and the numeric views:
  numcmp  <a> <b>   ->  lt | eq | gt                       (`Number::cmp`)
  numview <a>       ->  <i64|none> <u64|none> <16 hex>     (`as_i64`, `as_u64`, `as_f64().to_bits()`)
Number tokens use the wire syntax of `Wire.parseNumTok` (`I-5`, `U7`, `D3ff0000000000000`).
Glue code (unverified, in the trusted base).
-/
import JsonbModel.Driver.Wire
import JsonbModel.NumOrd

namespace Jsonb.Driver
open Jsonb.Wire

def showOptN {α} (f : α → String) : Option α → String
  | some a => f a
  | none => "none"

/-- `none` = not a request of this module -/
def numStep : List String → Option String
  | ["numcmp", a, b] =>
    match parseNumTok a, parseNumTok b with
    | some x, some y => some (showOrd (Num.cmp x y))
    | _, _ => some "bad-request"
  | ["spec:numcmp", a, b] =>
    match parseNumTok a, parseNumTok b with
    | some x, some y => some (if x.WF ∧ y.WF then showOrd (ExtVal.cmp (Num.val x) (Num.val y)) else "skip")
    | _, _ => some "bad-request"
  | ["numlaws", _, _, _] => some "ok"     -- the constant the order theorems guarantee
  | ["numview", a] =>
    match parseNumTok a with
    | some x =>
      some (showOptN (fun (i : Int) => toString i) (Num.asI64 x) ++ " " ++
            showOptN (fun (n : Nat) => toString n) (Num.asU64 x) ++ " " ++
            hex16 (Num.asF64 x))
    | none => some "bad-request"
  | _ => none

end Jsonb.Driver
