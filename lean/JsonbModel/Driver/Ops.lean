/-
Dispatch of line-protocol requests to model / spec functions.
-/
import JsonbModel.Driver.Wire
import JsonbModel.De
import JsonbModel.Ser
import JsonbModel.Driver.AccessOps
import JsonbModel.Driver.EditOps
import JsonbModel.Driver.NumOps
import JsonbModel.Driver.OrderOps
import JsonbModel.Driver.TextOps
import JsonbModel.Driver.PathOps
import JsonbModel.Driver.JsonOps
import JsonbModel.Driver.SelectOps
import JsonbModel.Driver.SerdeOps
import JsonbModel.Driver.TextFnOps
import JsonbModel.Driver.ChainOps
import JsonbModel.Driver.TextFn2Ops

namespace Jsonb.Driver
open Jsonb.Wire

def badReq : String := "bad-request"

def withTree (s : String) (f : JV → String) : String :=
  match parseTree s with
  | some v => f v
  | none => badReq

def withHex (s : String) (f : Bytes → String) : String :=
  match bytesOfHex s with
  | some b => f b
  | none => badReq

def step (line : String) : String :=
  match line.trimAscii.toString.splitOn " " with
  | ["numenc", v] => withTree v fun
      | .num n => "ok " ++ hexOfBytes (Num.enc n)
      | _ => badReq
  | ["numdec", h] => withHex h fun b => showRes showNum (Num.dec b)
  | ["enc", v] => withTree v fun v => showRes hexOfBytes (toVec v)
  | ["encspec", v] => withTree v fun v => "ok " ++ hexOfBytes (JV.encodeSpec v)
  | ["encinto", p, v] => withHex p fun p => withTree v fun v => showRes hexOfBytes (writeToVec p v)
  | ["dec", h] => withHex h fun b => showRes showJV (parseJsonb b)
  -- oracle ops: the model answers with the SPEC value (what the theorems say the
  -- implementation must return); `skip` outside the theorem's domain
  | ["rtdec", v] => withTree v fun v =>
      if JV.goodTop v then "ok " ++ showJV (JV.norm v) else "skip"
  | ["rtenc", v] => withTree v fun v =>
      if JV.goodTop v then "ok " ++ hexOfBytes (JV.encodeSpec v) else "skip"
  | ["spec:encinto", p, v] => withHex p fun p => withTree v fun v =>
      if JV.goodTop v then "ok " ++ hexOfBytes (p ++ JV.encodeSpec v) else "skip"
  | ["good", v] => withTree v fun v => showBool (JV.goodTop v)
  | req =>
    match accessStep req with
    | some r => r
    | none =>
      match editStep req with
      | some r => r
      | none =>
        match numStep req with
        | some r => r
        | none =>
          match orderStep req with
          | some r => r
          | none =>
            match textStep req with
            | some r => r
            | none =>
              match pathStep req with
              | some r => r
              | none =>
                match jsonStep req with
                | some r => r
                | none =>
                  match selectStep req with
                  | some r => r
                  | none =>
                    match serdeStep req with
                    | some r => r
                    | none =>
                      match textFnStep req with
                      | some r => r
                      | none =>
                        match chainStepD req with
                        | some r => r
                        | none =>
                          match textFn2Step req with
                          | some r => r
                          | none => badReq

end Jsonb.Driver
