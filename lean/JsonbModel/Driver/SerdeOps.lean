/- Driver ops for the serde_json bridge. -/
import JsonbModel.Driver.EditOps
import JsonbModel.Functions.Serde

namespace Jsonb.Driver
open Jsonb.Wire

def sortPairs (kvs : List (Bytes × String)) : List (Bytes × String) :=
  kvs.foldl (fun acc kv =>
    let rec ins : List (Bytes × String) → List (Bytes × String)
      | [] => [kv]
      | x :: xs => if lexCmp kv.1 x.1 == .lt then kv :: x :: xs else x :: ins xs
    ins acc) []

def joinPairs (kvs : List (Bytes × String)) : String :=
  String.join (kvs.map (fun kv => ",K" ++ hexOfBytes kv.1 ++ "," ++ kv.2))

mutual
/-- canonical print: object members sorted by key (the map compares as a map) -/
def showSJ : SJ → String
  | .null => "n"
  | .bool true => "t"
  | .bool false => "f"
  | .pos n => "P" ++ toString n
  | .neg i => "M" ++ toString i
  | .float b => "D" ++ hex16 b
  | .str s => "S" ++ hexOfBytes s
  | .arr vs => "A" ++ toString vs.length ++ showSJL vs
  | .obj kvs => "O" ++ toString kvs.length ++ joinPairs (sortPairs (pairsSJK kvs))
def showSJL : List SJ → String
  | [] => ""
  | v :: vs => "," ++ showSJ v ++ showSJL vs
def pairsSJK : List (Bytes × SJ) → List (Bytes × String)
  | [] => []
  | (k, v) :: kvs => (k, showSJ v) :: pairsSJK kvs
end

mutual
def parseSJ : Nat → List String → Option (SJ × List String)
  | 0, _ => none
  | _, [] => none
  | fuel+1, t :: ts =>
    match t.toList with
    | ['n'] => some (.null, ts)
    | ['t'] => some (.bool true, ts)
    | ['f'] => some (.bool false, ts)
    | 'P' :: r => (String.ofList r).toNat?.map (fun n => (.pos n, ts))
    | 'M' :: r => (String.ofList r).toInt?.map (fun i => (.neg i, ts))
    | 'D' :: r => (natOfHex (String.ofList r)).map (fun b => (.float b, ts))
    | 'S' :: r => (bytesOfHex (String.ofList r)).map (fun b => (.str b, ts))
    | 'A' :: r => match (String.ofList r).toNat? with
      | some n => (parseSJL fuel n ts).map (fun (vs, ts) => (.arr vs, ts))
      | none => none
    | 'O' :: r => match (String.ofList r).toNat? with
      | some n => (parseSJK fuel n ts).map (fun (kvs, ts) => (.obj kvs, ts))
      | none => none
    | _ => none
def parseSJL : Nat → Nat → List String → Option (List SJ × List String)
  | 0, _, _ => none
  | _, 0, ts => some ([], ts)
  | fuel+1, n+1, ts =>
    match parseSJ fuel ts with
    | some (v, ts) => (parseSJL fuel n ts).map (fun (vs, ts) => (v :: vs, ts))
    | none => none
def parseSJK : Nat → Nat → List String → Option (List (Bytes × SJ) × List String)
  | 0, _, _ => none
  | _, 0, ts => some ([], ts)
  | _, _+1, [] => none
  | fuel+1, n+1, k :: ts =>
    match k.toList with
    | 'K' :: r =>
      match bytesOfHex (String.ofList r), parseSJ fuel ts with
      | some kb, some (v, ts) => (parseSJK fuel n ts).map (fun (kvs, ts) => (SJ.insert kb v kvs, ts))
      | _, _ => none
    | _ => none
end

def parseSJTree (s : String) : Option SJ :=
  let toks := s.splitOn ","
  match parseSJ (2 * toks.length + 2) toks with
  | some (v, []) => some v
  | _ => none

def serdeStep : List String → Option String
  | ["toserde", d] => some <| withDoc d fun b => showRes showSJ (Fn.toSerdeJson b)
  | ["spec:toserde", d] => some <| withSpec d fun v => showRes showSJ (Spec.toSJ v)
  | ["toserdeobj", d] => some <| withDoc d fun b => match Fn.toSerdeJsonObject b with
      | .ok (some s) => "ok " ++ showSJ s
      | .ok none => "ok none"
      | .err _ => "err"
      | .panic _ => "panic"
      | .fuel => "fuel"
  | ["treeserde", v] => some <| match parseTree v with
      | some v => showRes showSJ (Spec.toSJ v)
      | none => "bad-request"
  | ["fromserde", s] => some <| match parseSJTree s with
      | some sj => "ok " ++ showJV (Spec.fromSJ sj)
      | none => "bad-request"
  | ["serdecheck", _] => some "ok"
  | _ => none

end Jsonb.Driver
