/-
`String::from_utf8_lossy` for the phase-2 translation (`Generated/Translated2.lean`).  Like
`x as f64` in `RustPreludeFloat.lean` this primitive is MAPPED to the model's transcription of the
standard library (`utf8Lossy` of Functions/Text2.lean, core::str::lossy `Utf8Chunks`): an
agreement theorem about a function that calls it checks the structure around the call only.  On
well-formed UTF-8 it is the identity (`utf8Lossy_valid`, Proofs/TextEquiv5.lean).
-/
import JsonbModel.RustPrelude2
import JsonbModel.Functions.Text2

namespace Jsonb.Rs

/-- `String::from_utf8_lossy(bs)` as the bytes of the resulting string -/
def fromUtf8Lossy (bs : Bytes) : Bytes := Jsonb.utf8Lossy bs

end Jsonb.Rs
