/-
Semantics of the Rust primitives used by the translated leaf functions
(`Generated/Translated.lean`, written by `tools/rs2lean.py`).  HAND-WRITTEN and TRUSTED: this
file, not the translator, says what `+` on `i64`, `as i8`, `to_be_bytes`, `bytes[1..]`,
`try_into().unwrap()`, `return` and `?` mean.  The translator only maps syntax to these names.

Conventions (documented in tools/RS2LEAN.md):
* every Rust integer type is the Lean type `Int`; a value of Rust type `t` is an `Int` inside
  `[t.minVal, t.maxVal]` (the agreement theorems carry this as a hypothesis on the arguments,
  every primitive below preserves it);
* arithmetic is the dev profile (`overflow-checks = on`): `add/sub/mul/neg/div/rem/shl/shr`
  return `Res Int` and *panic* outside the range; `as` casts between integers wrap (`cast`);
* `usize`/`isize` are 64 bits wide (the target the crate is built and tested on);
* `f64` is its IEEE-754 bit pattern, a `Nat < 2^64` (Lean's opaque `Float` is never used);
* `&[u8]`, `[u8; N]`, `Vec<u8>` are `Bytes`; slicing, indexing and `try_into().unwrap()`
  outside their domain are `Res.panic`, never totalised;
* `W: Write` is a `Vec<u8>`: `write_all` appends and cannot fail;
* control flow: `Ctl ρ α` is "either the value of this expression or an early exit of the
  enclosing function with result `r : Res ρ`" (`return e`, `?` on an `Err`, a panic).
Imports: Base and the generated constants only.
-/
import JsonbModel.Base
import JsonbModel.Generated.Constants

namespace Jsonb.Rs

/-! ## Integer types -/

inductive IntTy where
  | i8 | i16 | i32 | i64 | i128 | isize | u8 | u16 | u32 | u64 | u128 | usize
  deriving DecidableEq, Repr

namespace IntTy

def bits : IntTy → Nat
  | i8 => 8 | i16 => 16 | i32 => 32 | i64 => 64 | i128 => 128 | isize => 64
  | u8 => 8 | u16 => 16 | u32 => 32 | u64 => 64 | u128 => 128 | usize => 64

def signed : IntTy → Bool
  | i8 | i16 | i32 | i64 | i128 | isize => true
  | _ => false

/-- `t::MIN` -/
def minVal (t : IntTy) : Int := if t.signed then -(2 ^ (t.bits - 1) : Nat) else 0

/-- `t::MAX` -/
def maxVal (t : IntTy) : Int :=
  if t.signed then (2 ^ (t.bits - 1) : Nat) - 1 else (2 ^ t.bits : Nat) - 1

/-- the values of Rust type `t` -/
def InRange (t : IntTy) (x : Int) : Prop := t.minVal ≤ x ∧ x ≤ t.maxVal

instance (t : IntTy) (x : Int) : Decidable (t.InRange x) := by unfold InRange; infer_instance

/-- size in bytes -/
def bytes (t : IntTy) : Nat := t.bits / 8

end IntTy

/-! ## Checked arithmetic (dev profile) and wrapping casts -/

/-- the result of an arithmetic operator whose mathematical value is `x` -/
def checked (t : IntTy) (site : String) (x : Int) : Res Int :=
  if t.InRange x then .ok x else .panic site

/-- `a + b` at type `t` -/
def add (t : IntTy) (a b : Int) : Res Int := checked t "attempt to add with overflow" (a + b)
/-- `a - b` at type `t` -/
def sub (t : IntTy) (a b : Int) : Res Int := checked t "attempt to subtract with overflow" (a - b)
/-- `a * b` at type `t` -/
def mul (t : IntTy) (a b : Int) : Res Int := checked t "attempt to multiply with overflow" (a * b)
/-- `-a` at type `t` -/
def neg (t : IntTy) (a : Int) : Res Int := checked t "attempt to negate with overflow" (-a)
/-- `a / b` at type `t` (truncating; `MIN / -1` overflows) -/
def div (t : IntTy) (a b : Int) : Res Int :=
  if b = 0 then .panic "attempt to divide by zero"
  else checked t "attempt to divide with overflow" (Int.tdiv a b)
/-- `a % b` at type `t` (sign of the dividend; `MIN % -1` overflows) -/
def rem (t : IntTy) (a b : Int) : Res Int :=
  if b = 0 then .panic "attempt to calculate the remainder with a divisor of zero"
  else if t.signed ∧ a = t.minVal ∧ b = -1 then
    .panic "attempt to calculate the remainder with overflow"
  else .ok (Int.tmod a b)

/-- two's complement reduction of any integer into the range of `t` -/
def wrap (t : IntTy) (x : Int) : Int :=
  let m := x % (2 ^ t.bits : Nat)
  if t.signed ∧ m ≥ (2 ^ (t.bits - 1) : Nat) then m - (2 ^ t.bits : Nat) else m

/-- `x as t` between integer types: truncate / sign-reinterpret, never panics -/
def cast (t : IntTy) (x : Int) : Int := wrap t x

/-- `a << s` at type `t`: panics when the shift amount is not in `0..bits`; bits shifted out are
dropped (no overflow check on the value) -/
def shl (t : IntTy) (a s : Int) : Res Int :=
  if 0 ≤ s ∧ s < t.bits then .ok (wrap t (a * (2 ^ s.toNat : Nat)))
  else .panic "attempt to shift left with overflow"

/-- `a >> s` at type `t`: arithmetic for signed, logical for unsigned = floor division -/
def shr (t : IntTy) (a s : Int) : Res Int :=
  if 0 ≤ s ∧ s < t.bits then .ok (a / (2 ^ s.toNat : Nat))
  else .panic "attempt to shift right with overflow"

/-- `a & b` on an UNSIGNED type (the translator refuses bit operators on signed types) -/
def bitand (a b : Int) : Int := ((a.toNat &&& b.toNat : Nat) : Int)
/-- `a | b` on an unsigned type -/
def bitor (a b : Int) : Int := ((a.toNat ||| b.toNat : Nat) : Int)
/-- `a ^ b` on an unsigned type -/
def bitxor (a b : Int) : Int := ((a.toNat ^^^ b.toNat : Nat) : Int)

/-- `x.try_into()` to the integer type `t` (`None` stands for `Err(TryFromIntError)`) -/
def tryInto (t : IntTy) (x : Int) : Option Int := if t.InRange x then some x else none

/-- `.unwrap()` / `.expect(_)` -/
def unwrap {α : Type} : Option α → Res α
  | some a => .ok a
  | none => .panic "called `unwrap()` on a `None`/`Err` value"

/-- `.ok_or(Error::<e>)` followed by `?` -/
def okOr {α : Type} (o : Option α) (e : String) : Res α :=
  match o with
  | some a => .ok a
  | none => .err e

/-! ## Bytes: slices, arrays, vectors of `u8` -/

/-- a `u8` value as a byte -/
def u8 (x : Int) : UInt8 := UInt8.ofNat x.toNat

/-- `s.len()` -/
def len {α : Type} (s : List α) : Int := (s.length : Int)

/-- `s.is_empty()` -/
def isEmpty {α : Type} (s : List α) : Bool := s.length == 0

/-- `s[i]` on bytes: the byte as a `u8` value; panics when out of bounds -/
def index (s : Bytes) (i : Int) : Res Int :=
  if i < 0 then .panic "index out of bounds"
  else match s[i.toNat]? with
    | some b => .ok (b.toNat : Int)
    | none => .panic "index out of bounds"

/-- `TABLE[i]` on a `static [u8; N]` table given as a list of values -/
def indexTable (s : List Nat) (i : Int) : Res Int :=
  if i < 0 then .panic "index out of bounds"
  else match s[i.toNat]? with
    | some b => .ok (b : Int)
    | none => .panic "index out of bounds"

/-- `s.first()` (copied out as a `u8` value) -/
def first (s : Bytes) : Option Int :=
  match s with
  | [] => none
  | b :: _ => some (b.toNat : Int)

/-- `&s[a..]` -/
def sliceFrom (s : Bytes) (a : Int) : Res Bytes :=
  if 0 ≤ a ∧ a ≤ (s.length : Int) then .ok (s.drop a.toNat)
  else .panic "range start index out of range for slice"

/-- `&s[..b]` -/
def sliceTo (s : Bytes) (b : Int) : Res Bytes :=
  if 0 ≤ b ∧ b ≤ (s.length : Int) then .ok (s.take b.toNat)
  else .panic "range end index out of range for slice"

/-- `&s[a..b]` -/
def slice (s : Bytes) (a b : Int) : Res Bytes :=
  if 0 ≤ a ∧ a ≤ b ∧ b ≤ (s.length : Int) then .ok ((s.drop a.toNat).take (b.toNat - a.toNat))
  else .panic "slice index out of range"

/-- `s.get(a..b)` -/
def getRange (s : Bytes) (a b : Int) : Option Bytes :=
  if 0 ≤ a ∧ a ≤ b ∧ b ≤ (s.length : Int) then some ((s.drop a.toNat).take (b.toNat - a.toNat))
  else none

/-- `<[u8; n]>::try_from(slice)` (`None` stands for `Err(TryFromSliceError)`) -/
def tryIntoArray (n : Nat) (s : Bytes) : Option Bytes := if s.length = n then some s else none

/-- `x.to_be_bytes()` at integer type `t` -/
def toBeBytes (t : IntTy) (x : Int) : Bytes := beN t.bytes (x % (2 ^ t.bits : Nat)).toNat

/-- `t::from_be_bytes(arr)`; `arr` has exactly `t.bytes` bytes (guaranteed by the array type) -/
def fromBeBytes (t : IntTy) (arr : Bytes) : Int := wrap t (ofBe arr)

/-- `[a, b, ..]` of `u8` values -/
def bytesOf (xs : List Int) : Bytes := xs.map u8

/-- `writer.write_all(bs)` for `W = Vec<u8>`: appends, cannot fail -/
def writeAll (w : Bytes) (bs : Bytes) : Res Bytes := .ok (w ++ bs)

/-- `(a..=b).collect::<Vec<_>>()` -/
def rangeInclusive (a b : Int) : List Int :=
  (List.range (b + 1 - a).toNat).map (fun (k : Nat) => a + (k : Int))

/-! ## `f64` as a bit pattern -/

/-- `f64::NAN` (`0.0 / 0.0` evaluated by rustc: the positive quiet NaN) -/
def f64NAN : Nat := 0x7FF8000000000000
/-- `f64::INFINITY` -/
def f64INFINITY : Nat := 0x7FF0000000000000
/-- `f64::NEG_INFINITY` -/
def f64NEG_INFINITY : Nat := 0xFFF0000000000000

/-- biased exponent field, bits 52..62 -/
def f64Exp (b : Nat) : Nat := (b >>> 52) &&& 0x7FF
/-- fraction field, bits 0..51 -/
def f64Frac (b : Nat) : Nat := b &&& 0xFFFFFFFFFFFFF

/-- `x.is_nan()` -/
def f64IsNan (b : Nat) : Bool := f64Exp b == 0x7FF && f64Frac b != 0
/-- `x.is_infinite()` -/
def f64IsInfinite (b : Nat) : Bool := f64Exp b == 0x7FF && f64Frac b == 0
/-- `x.is_sign_negative()` (the sign bit, also for NaN and zero) -/
def f64IsSignNegative (b : Nat) : Bool := (b >>> 63) &&& 1 == 1
/-- `x.to_bits()` as a `u64` value -/
def f64ToBits (b : Nat) : Int := (b : Int)
/-- `f64::from_bits(x)` -/
def f64FromBits (x : Int) : Nat := x.toNat
/-- `x.to_be_bytes()` -/
def f64ToBeBytes (b : Nat) : Bytes := beN 8 b
/-- `f64::from_be_bytes(arr)`, `arr` has 8 bytes -/
def f64FromBeBytes (arr : Bytes) : Nat := ofBe arr

/-- sign/magnitude key of a non-NaN bit pattern: IEEE-754 orders non-NaN values like these
integers (both zeros have key 0) -/
def f64Key (b : Nat) : Int :=
  if f64IsSignNegative b then -((b % 2 ^ 63 : Nat) : Int) else ((b % 2 ^ 63 : Nat) : Int)

/-- `OrderedFloat(a).cmp(&OrderedFloat(b))` (ordered-float 4.x, documented contract): NaN is
equal to itself and greater than every other value, `-0.0 = +0.0`, otherwise the IEEE order -/
def orderedFloatCmp (a b : Nat) : Ordering :=
  if f64IsNan a then (if f64IsNan b then .eq else .gt)
  else if f64IsNan b then .lt
  else compare (f64Key a) (f64Key b)

/-! ## Control flow -/

/-- The value of a Rust expression inside a function whose result type is `ρ`: either the
expression's value, or the function has already finished with `r` (early `return`, `?` on an
error, panic). -/
inductive Ctl (ρ α : Type) where
  | val (a : α)
  | ret (r : Res ρ)

namespace Ctl

def bind {ρ α β : Type} (x : Ctl ρ α) (f : α → Ctl ρ β) : Ctl ρ β :=
  match x with
  | val a => f a
  | ret r => ret r

instance {ρ : Type} : Monad (Ctl ρ) where
  pure := val
  bind := bind

/-- a primitive or callee that can panic / fail: its panic or error ends the function (this is
also the `?` operator on a `Result`-typed callee) -/
def ofRes {ρ α : Type} (r : Res α) : Ctl ρ α :=
  match r with
  | .ok a => val a
  | .err e => ret (.err e)
  | .panic s => ret (.panic s)
  | .fuel => ret .fuel

/-- the function body as a whole -/
def run {ρ : Type} (x : Ctl ρ ρ) : Res ρ :=
  match x with
  | val a => .ok a
  | ret r => r

@[simp] theorem pure_eq {ρ α : Type} (a : α) : (pure a : Ctl ρ α) = val a := rfl
@[simp] theorem val_bind {ρ α β : Type} (a : α) (f : α → Ctl ρ β) : (val a >>= f) = f a := rfl
@[simp] theorem ret_bind {ρ α β : Type} (r : Res ρ) (f : α → Ctl ρ β) :
    ((ret r : Ctl ρ α) >>= f) = ret r := rfl
@[simp] theorem ofRes_ok {ρ α : Type} (a : α) : (ofRes (.ok a) : Ctl ρ α) = val a := rfl
@[simp] theorem ofRes_err {ρ α : Type} (e : String) : (ofRes (.err e : Res α) : Ctl ρ α) = ret (.err e) := rfl
@[simp] theorem ofRes_panic {ρ α : Type} (s : String) :
    (ofRes (.panic s : Res α) : Ctl ρ α) = ret (.panic s) := rfl
@[simp] theorem run_val {ρ : Type} (a : ρ) : run (val a : Ctl ρ ρ) = .ok a := rfl
@[simp] theorem run_ret {ρ : Type} (r : Res ρ) : run (ret r : Ctl ρ ρ) = r := rfl

end Ctl

end Jsonb.Rs
