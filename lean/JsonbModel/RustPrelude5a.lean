/-
Semantics of the Rust constructs used by the phase-5a translation (`Generated/Translated5a.lean`, written by
`tools/rs2lean5a.py`): the read-only accessors of functions.rs.  HAND-WRITTEN and TRUSTED, like `RustPrelude.lean` …
`RustPrelude4.lean` which it extends; the translator only maps syntax to these names.

Everything in this file is a MAPPING of a standard-library routine to the model's transcription of it, in the way
`x as f64` is mapped to `F64.ofIntRNE` (RustPreludeFloat.lean), `String::from_utf8_lossy` to `utf8Lossy`
(RustPrelude2Str.lean) and `std::str::from_utf8` to `validUtf8` (RustPrelude3Str.lean): an agreement theorem about
a function that calls one of them checks the structure around the call only; what the routine computes is the
model's definition (exercised by the sampled correspondence and, for the casts, by the C18 theorems).

* `&s.to_lowercase() == "<ascii literal>"`  ↦  `Fn.lowerEq s "<literal>"` (Functions/Access.lean).  `str::to_lowercase`
  is the Unicode lower-casing; the model compares after ASCII lower-casing.  The two agree for the literals the crate
  uses (`"true"`, `"false"`): no non-ASCII scalar lower-cases to one of their letters.  Only this comparison shape is
  translated, never `to_lowercase` on its own.
* `s.parse::<i64>()` / `::<u64>()` / `::<f64>()`  ↦  `Fn.parseI64` / `Fn.parseU64` / `Fn.parseF64` (core::num's
  `FromStr`: optional sign, decimal digits, overflow check; `dec2flt` for `f64`, as a bit pattern); the error value
  (`ParseIntError` / `ParseFloatError`) is never inspected by the translated code.
* `format!("{}", n)` for `n : Number`  ↦  `Fn.numToString fmt` (Functions/ToString.lean: `itoa` for the integer
  variants; the text of a float, `ryu`'s shortest representation, is the parameter `fmt` supplied by the caller,
  exactly as in the model's `T.toStr` / `T.toStringFn`).
* an integer literal with an `f64` suffix (`1_f64`)  ↦  `Rs.intAsF64` of RustPreludeFloat.lean (exact below 2^53).
Imports: RustPrelude4, RustPreludeFloat, the model's Functions/Access.lean and Functions/ToString.lean, and the
phase-1 generated file for the TYPE `Tr.Number` (the translated `enum Number`).
-/
import JsonbModel.RustPrelude4
import JsonbModel.RustPreludeFloat
import JsonbModel.Functions.Access
import JsonbModel.Functions.ToString
import JsonbModel.Generated.Translated

namespace Jsonb.Rs

/-- `&s.to_lowercase() == lit` for an ASCII literal -/
def lowercaseEq (s : Bytes) (lit : String) : Bool := Fn.lowerEq s lit

/-- `s.parse::<i64>()` -/
def parseI64 (s : Bytes) : Res Int :=
  match Fn.parseI64 s with
  | some v => .ok v
  | none => .err "ParseIntError"

/-- `s.parse::<u64>()` -/
def parseU64 (s : Bytes) : Res Int :=
  match Fn.parseU64 s with
  | some v => .ok (v : Int)
  | none => .err "ParseIntError"

/-- `s.parse::<f64>()` (the bit pattern) -/
def parseF64 (s : Bytes) : Res Nat :=
  match Fn.parseF64 s with
  | some v => .ok v
  | none => .err "ParseFloatError"

/-- the translated `enum Number` as the model's `Num` -/
def numberToNum : Tr.Number → Num
  | .Int64 v => .int v
  | .UInt64 v => .uint v.toNat
  | .Float64 b => .float b

/-- `format!("{}", n)` for `n : Number` (`impl Display for Number`, number.rs); `fmt` = the text of an `f64` -/
def displayNumber (fmt : Nat → Bytes) (n : Tr.Number) : Bytes := Fn.numToString fmt (numberToNum n)

end Jsonb.Rs
