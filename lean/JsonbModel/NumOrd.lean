/-
The order on numbers: `impl Ord for Number` of number.rs (with its helper `cmp_int_float`),
`OrderedFloat<f64>::cmp` on bit patterns, the `as f64` conversions used by `as_f64`,
and the spec layer: exact extended values and their mathematical order.
No Mathlib; core Lean only (linked into the driver).
-/
import JsonbModel.Num

namespace Jsonb

/-! ## Implementation model -/

namespace F64

/-- Sign/magnitude key of a non-NaN bit pattern: the low 63 bits, negated when bit 63 is set.
IEEE-754 orders non-NaN values exactly like these keys (both zeros have key 0). -/
def key (b : Nat) : Int :=
  if signBit b then -((b % 9223372036854775808 : Nat) : Int) else ((b % 9223372036854775808 : Nat) : Int)

/-- the primitive `a >= b` on `f64` (false as soon as one side is NaN) -/
def ge (a b : Nat) : Bool := !isNaN a && !isNaN b && decide (key b ≤ key a)

/-- `OrderedFloat::ge`: `self.0.is_nan() | (self.0 >= other.0)` -/
def geOF (a b : Nat) : Bool := isNaN a || ge a b

/-- `OrderedFloat<f64>::cmp`: `if self < other {Less} else if self > other {Greater} else {Equal}`
with `lt = !ge`, `gt(a,b) = !ge(b,a)`.  NaN equals NaN and is the greatest; -0 = +0. -/
def cmpOF (a b : Nat) : Ordering :=
  if !geOF a b then .lt else if !geOF b a then .gt else .eq

/-- `n as f64` for an unsigned integer `n < 2^64`: round to nearest, ties to even. -/
def ofNatRNE (n : Nat) : Nat :=
  if n = 0 then 0
  else
    let l := Nat.log2 n                       -- 2^l ≤ n < 2^(l+1)
    if l ≤ 52 then
      -- exact: significand n·2^(52-l) ∈ [2^52, 2^53), exponent field l+1023
      (l + 1022) * 4503599627370496 + n * 2 ^ (52 - l)
    else
      let s := l - 52                         -- bits to drop
      let q := n / 2 ^ s                      -- ∈ [2^52, 2^53)
      let r := n % 2 ^ s
      let half := 2 ^ (s - 1)
      let q' := if r > half ∨ (r = half ∧ q % 2 = 1) then q + 1 else q
      -- a carry to q' = 2^53 correctly bumps the exponent field and leaves mantissa 0
      (l + 1022) * 4503599627370496 + q'

/-- `i as f64` for a signed integer -/
def ofIntRNE (i : Int) : Nat :=
  if i < 0 then 9223372036854775808 + ofNatRNE (-i).toNat else ofNatRNE i.toNat

end F64

namespace Num

/-- `i128::MAX` -/
def i128Max : Int := 170141183460469231731687303715884105727

/-- `cmp_int_float(i: i128, f: f64)` of number.rs, transcribed arm by arm. -/
def cmpIntFloat (i : Int) (bits : Nat) : Ordering :=
  if F64.isNaN bits then .lt
  else
    let negative : Bool := bits / 9223372036854775808 == 1                 -- bits >> 63 == 1
    let exponent : Int := ((bits / 4503599627370496 % 2048 : Nat) : Int)    -- ((bits >> 52) & 0x7ff) as i32
    let fraction : Nat := bits % 4503599627370496                           -- bits & 0x000f_ffff_ffff_ffff
    let me : Nat × Int :=
      if exponent == 0 then (fraction, -1074)
      else (fraction ||| 4503599627370496, exponent - 1075)
    let mantissa := me.1
    let exp2 := me.2
    let ph : Int × Bool :=
      if mantissa == 0 then (0, false)
      else if exp2 ≥ 12 then (i128Max, false)
      else if exp2 ≥ 0 then ((mantissa : Int) * 2 ^ exp2.toNat, false)      -- (mantissa as i128) << exp2
      else if exp2 > -64 then
        (((mantissa / 2 ^ (-exp2).toNat : Nat) : Int),                       -- (mantissa >> -exp2) as i128
         mantissa % 2 ^ (-exp2).toNat != 0)                                  -- mantissa & ((1 << -exp2) - 1) != 0
      else (0, true)
    let intPart := ph.1
    let hasFraction := ph.2
    let truncated : Int := if negative then -intPart else intPart
    match compare i truncated with
    | .eq => if hasFraction then (if negative then .gt else .lt) else .eq
    | order => order

/-- `impl Ord for Number`, the nine arms in source order. -/
def cmp : Num → Num → Ordering
  | int l, int r => compare l r
  | uint l, uint r => compare l r
  | int l, uint r => if l < 0 then .lt else compare l.toNat r          -- (*l as u64).cmp(r)
  | uint l, int r => if r < 0 then .gt else compare l r.toNat
  | float l, float r => F64.cmpOF l r
  | int l, float r => cmpIntFloat l r
  | uint l, float r => cmpIntFloat (l : Int) r
  | float l, int r => (cmpIntFloat r l).swap
  | float l, uint r => (cmpIntFloat (r : Int) l).swap

/-- `Number::as_f64` (always `Some`), as a bit pattern -/
def asF64 : Num → Nat
  | int i => F64.ofIntRNE i
  | uint n => F64.ofNatRNE n
  | float b => b

end Num

/-! ## Spec layer: exact values and their order -/

/-- An exact extended real: `fin m e` denotes `m · 2^e`. -/
inductive ExtVal where
  | negInf
  | fin (m : Int) (e : Int)
  | posInf
  | nan
  deriving Repr, DecidableEq

namespace ExtVal

/-- The mathematical order, with `nan` equal to itself and above everything, `negInf` least.
Two finite values are compared after scaling both by `2^(-min e1 e2)` (one of the two
shifts below is always `2^0`). -/
def cmp : ExtVal → ExtVal → Ordering
  | nan, nan => .eq
  | nan, _ => .gt
  | _, nan => .lt
  | posInf, posInf => .eq
  | posInf, _ => .gt
  | _, posInf => .lt
  | negInf, negInf => .eq
  | negInf, _ => .lt
  | _, negInf => .gt
  | fin m1 e1, fin m2 e2 => compare (m1 * 2 ^ (e1 - e2).toNat) (m2 * 2 ^ (e2 - e1).toNat)

/-- `v` is exactly the integer `i` -/
def isInt (v : ExtVal) (i : Int) : Prop :=
  match v with
  | fin m e => m * 2 ^ e.toNat = i * 2 ^ (-e).toNat
  | _ => False

instance (v : ExtVal) (i : Int) : Decidable (v.isInt i) := by
  cases v <;> unfold isInt <;> infer_instance

end ExtVal

namespace F64

/-- exact value of a binary64 bit pattern -/
def val (b : Nat) : ExtVal :=
  if isNaN b then .nan
  else if expField b = 2047 then (if signBit b then .negInf else .posInf)
  else
    let m : Int := if expField b = 0 then mantField b else mantField b + 4503599627370496
    let e : Int := if expField b = 0 then -1074 else (expField b : Int) - 1075
    .fin (if signBit b then -m else m) e

end F64

namespace Num

def val : Num → ExtVal
  | int i => .fin i 0
  | uint n => .fin n 0
  | float b => F64.val b

end Num

end Jsonb
