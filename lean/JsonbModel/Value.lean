/-
Spec layer: the JSON tree `JV` (mirror of `Value`), well-formedness, field-width limits,
and the README byte layout as a pure function `encodeSpec`.
-/
import JsonbModel.Num
import JsonbModel.Utf8

namespace Jsonb

inductive JV where
  | null
  | bool (b : Bool)
  | num (n : Num)
  | str (s : Bytes)
  | arr (vs : List JV)
  | obj (kvs : List (Bytes × JV))
  deriving Repr

namespace JV

/-! `BTreeMap<String, _>` invariant: keys strictly increasing in byte order. -/
def keysSorted : List (Bytes × JV) → Bool
  | [] => true
  | [_] => true
  | (k1, _) :: (k2, v2) :: rest => lexCmp k1 k2 == .lt && keysSorted ((k2, v2) :: rest)

mutual
def norm : JV → JV
  | null => null
  | bool b => bool b
  | num n => num n.norm
  | str s => str s
  | arr vs => arr (normList vs)
  | obj kvs => obj (normKvs kvs)
def normList : List JV → List JV
  | [] => []
  | v :: vs => norm v :: normList vs
def normKvs : List (Bytes × JV) → List (Bytes × JV)
  | [] => []
  | (k, v) :: kvs => (k, norm v) :: normKvs kvs
end

/-! ### The README layout

Container header word = `tag + count`; entry word = `type + payloadLength`; array =
header, one entry word per element, payloads; object = header, key entry words, value
entry words, key bytes, value payloads.  A nested container's payload is its complete
image.  Scalars at the root are wrapped in a scalar header with a single entry. -/

mutual
/-- `(entry word, payload)` of a value stored inside a container -/
def entry : JV → Nat × Bytes
  | null => (C.NULL_TAG, [])
  | bool true => (C.TRUE_TAG, [])
  | bool false => (C.FALSE_TAG, [])
  | num n => (C.NUMBER_TAG + (Num.enc n).length, Num.enc n)
  | str s => (C.STRING_TAG + s.length, s)
  | arr vs =>
    let p := u32be (C.ARRAY_CONTAINER_TAG + vs.length) ++ (wordsL vs ++ paysL vs)
    (C.CONTAINER_TAG + p.length, p)
  | obj kvs =>
    let p := u32be (C.OBJECT_CONTAINER_TAG + kvs.length) ++
      (keyWords kvs ++ (wordsK kvs ++ (keyBytes kvs ++ paysK kvs)))
    (C.CONTAINER_TAG + p.length, p)
/-- entry words of a list of values, concatenated -/
def wordsL : List JV → Bytes
  | [] => []
  | v :: vs => u32be (entry v).1 ++ wordsL vs
/-- payloads of a list of values, concatenated -/
def paysL : List JV → Bytes
  | [] => []
  | v :: vs => (entry v).2 ++ paysL vs
def wordsK : List (Bytes × JV) → Bytes
  | [] => []
  | (_, v) :: kvs => u32be (entry v).1 ++ wordsK kvs
def paysK : List (Bytes × JV) → Bytes
  | [] => []
  | (_, v) :: kvs => (entry v).2 ++ paysK kvs
def keyWords : List (Bytes × JV) → Bytes
  | [] => []
  | (k, _) :: kvs => u32be (C.STRING_TAG + k.length) ++ keyWords kvs
def keyBytes : List (Bytes × JV) → Bytes
  | [] => []
  | (k, _) :: kvs => k ++ keyBytes kvs
end

/-- The complete JSONB document of a value (what `Value::to_vec` must produce). -/
def encodeSpec : JV → Bytes
  | arr vs => (entry (arr vs)).2
  | obj kvs => (entry (obj kvs)).2
  | v => u32be C.SCALAR_CONTAINER_TAG ++ (u32be (entry v).1 ++ (entry v).2)

/-- entry type code and payload length of a value stored inside a container -/
def ety : JV → Nat
  | null => C.NULL_TAG
  | bool true => C.TRUE_TAG
  | bool false => C.FALSE_TAG
  | num _ => C.NUMBER_TAG
  | str _ => C.STRING_TAG
  | arr _ => C.CONTAINER_TAG
  | obj _ => C.CONTAINER_TAG
def elen (v : JV) : Nat := (entry v).2.length

/-! ### Well-formed values within the format's field widths

`good v`: numbers in range, strings and keys valid UTF-8, object keys strictly increasing
(the `BTreeMap` invariant), and every count / payload length inside the README's 29-bit /
28-bit fields (`encode` wraps beyond them: `len as u32 | tag`).  A top-level container's own
image is not an entry payload, so `goodTop` does not bound it. -/

mutual
def good : JV → Bool
  | null => true
  | bool _ => true
  | num n => decide n.WF
  | str s => decide (s.length < 268435456) && validUtf8 s
  | arr vs => decide (vs.length < 536870912) && decide ((entry (arr vs)).2.length < 268435456) && goodL vs
  | obj kvs => decide (kvs.length < 536870912) && decide ((entry (obj kvs)).2.length < 268435456)
      && keysSorted kvs && goodK kvs
def goodL : List JV → Bool
  | [] => true
  | v :: vs => good v && goodL vs
def goodK : List (Bytes × JV) → Bool
  | [] => true
  | (k, v) :: kvs => decide (k.length < 268435456) && validUtf8 k && good v && goodK kvs
end

def goodTop : JV → Bool
  | arr vs => decide (vs.length < 536870912) && goodL vs
  | obj kvs => decide (kvs.length < 536870912) && keysSorted kvs && goodK kvs
  | v => good v

end JV
end Jsonb
