/-
C07: chains of operations.  One operation of the chain takes the current document and gives the
next one (or refuses: the document stays).  `ChainOp α` is parametrised by the representation
of document-valued arguments: `JV` on the tree side, `Bytes` on the byte side.  Arguments can be
literal documents, the current document itself, or a sub-value of the current document picked
by a key path ("arguments chosen from the current document").
No Mathlib.
-/
import JsonbModel.Functions.Access
import JsonbModel.Functions.Edit
import JsonbModel.Selector
import JsonbModel.Spec.Access
import JsonbModel.Spec.Edit
import JsonbModel.Spec.PathEval

namespace Jsonb

/-- a document-valued argument -/
inductive Arg (α : Type) where
  | lit (w : α)
  | self
  | sub (kp : List KeyPath)

inductive ChainOp (α : Type) where
  | concat (a : Arg α) (argLeft : Bool)     -- concat(doc, a) or concat(a, doc)
  | delName (name : Bytes)
  | delIdx (i : Int)
  | delKp (kp : List KeyPath)
  | arrIns (pos : Int) (a : Arg α)
  | objIns (key : Bytes) (a : Arg α) (update : Bool)
  | objDel (keys : List Bytes)
  | objPick (keys : List Bytes)
  | strip
  | getIdx (i : Nat)
  | getName (name : Bytes) (ignoreCase : Bool)
  | getKp (kp : List KeyPath)
  | keys
  | distinct
  | inter (a : Arg α)
  | except (a : Arg α)
  | wrapArr (as : List (Arg α))               -- build_array
  | wrapObj (kas : List (Bytes × Arg α))      -- build_object
  | selFirst (jp : JsonPath)                  -- get_by_path_first
  | selArr (jp : JsonPath)                    -- get_by_path_array

def Arg.map {α β} (f : α → β) : Arg α → Arg β
  | .lit w => .lit (f w)
  | .self => .self
  | .sub kp => .sub kp

def ChainOp.map {α β} (f : α → β) : ChainOp α → ChainOp β
  | .concat a l => .concat (a.map f) l
  | .delName n => .delName n
  | .delIdx i => .delIdx i
  | .delKp kp => .delKp kp
  | .arrIns p a => .arrIns p (a.map f)
  | .objIns k a u => .objIns k (a.map f) u
  | .objDel ks => .objDel ks
  | .objPick ks => .objPick ks
  | .strip => .strip
  | .getIdx i => .getIdx i
  | .getName n ic => .getName n ic
  | .getKp kp => .getKp kp
  | .keys => .keys
  | .distinct => .distinct
  | .inter a => .inter (a.map f)
  | .except a => .except (a.map f)
  | .wrapArr as => .wrapArr (as.map (Arg.map f))
  | .wrapObj kas => .wrapObj (kas.map (fun ka => (ka.1, ka.2.map f)))
  | .selFirst jp => .selFirst jp
  | .selArr jp => .selArr jp

/-! ### tree side -/
namespace Spec
open JV

def argOf (v : JV) : Arg JV → Option JV
  | .lit w => some w
  | .self => some v
  | .sub kp => getByKeypath v kp

def argsOf (v : JV) : List (Arg JV) → Option (List JV)
  | [] => some []
  | a :: as => match argOf v a, argsOf v as with
    | some w, some ws => some (w :: ws)
    | _, _ => none

def kargsOf (v : JV) : List (Bytes × Arg JV) → Option (List (Bytes × JV))
  | [] => some []
  | (k, a) :: kas => match argOf v a, kargsOf v kas with
    | some w, some ws => some ((k, w) :: ws)
    | _, _ => none

/-- the fuel both evaluators are run with in a chain -/
def chainSelFuel (v : JV) (jp : JsonPath) : Nat := Sel.selFuel (encodeSpec v) jp

/-- one operation on the tree; `none` = the operation is refused / yields no document: the
chain keeps the current document -/
def chainStep (v : JV) : ChainOp JV → Option JV
  | .concat a l => (argOf v a).map (fun w => if l then concat w v else concat v w)
  | .delName n => deleteByName v n
  | .delIdx i => deleteByIndex v i
  | .delKp kp => deleteByKeypath v kp
  | .arrIns p a => (argOf v a).map (fun w => arrayInsert v p w)
  | .objIns k a u => (argOf v a).bind (fun w => match objectInsert v k w u with
      | .ok r => some r
      | .error _ => none)
  | .objDel ks => objectDelete v ks
  | .objPick ks => objectPick v ks
  | .strip => some (stripNulls v)
  | .getIdx i => getByIndex v i
  | .getName n ic => getByName v n ic
  | .getKp kp => getByKeypath v kp
  | .keys => objectKeys v
  | .distinct => some (arrayDistinct v)
  | .inter a => (argOf v a).map (fun w => arrayIntersection v w)
  | .except a => (argOf v a).map (fun w => arrayExcept v w)
  | .wrapArr as => (argsOf v as).map buildArray
  | .wrapObj kas => (kargsOf v kas).map buildObject
  | .selFirst jp =>
    (match evalPaths (chainSelFuel v jp) v none jp with
     | some items =>
       if Sel.isPredicate jp then some (.bool (!items.isEmpty))
       else items.head?
     | none => none)
  | .selArr jp =>
    (match evalPaths (chainSelFuel v jp) v none jp with
     | some items => if Sel.isPredicate jp then some (.bool (!items.isEmpty)) else some (arr items)
     | none => none)

/-- all intermediate documents of a chain, the start excluded -/
def runChain (v : JV) : List (ChainOp JV) → List JV
  | [] => []
  | op :: ops =>
    let v' := (chainStep v op).getD v
    v' :: runChain v' ops

end Spec

/-! ### byte side: the public functions with an empty output buffer -/
namespace Fn

/-- an error return (`Err(_)`) of an editor = the operation is refused -/
def refuse : Res Bytes → Res (Option Bytes)
  | .ok b => .ok (some b)
  | .err _ => .ok none
  | .panic s => .panic s
  | .fuel => .fuel

def argOf (b : Bytes) : Arg Bytes → Res (Option Bytes)
  | .lit w => .ok (some w)
  | .self => .ok (some b)
  | .sub kp => getByKeypath b kp

def argsOf (b : Bytes) : List (Arg Bytes) → Res (Option (List Bytes))
  | [] => .ok (some [])
  | a :: as =>
    match argOf b a with
    | .ok (some w) => (match argsOf b as with
                       | .ok (some ws) => .ok (some (w :: ws))
                       | .ok none => .ok none
                       | .err e => .err e
                       | .panic s => .panic s
                       | .fuel => .fuel)
    | .ok none => .ok none
    | .err e => .err e
    | .panic s => .panic s
    | .fuel => .fuel

def kargsOf (b : Bytes) : List (Bytes × Arg Bytes) → Res (Option (List (Bytes × Bytes)))
  | [] => .ok (some [])
  | (k, a) :: kas =>
    match argOf b a with
    | .ok (some w) => (match kargsOf b kas with
                       | .ok (some ws) => .ok (some ((k, w) :: ws))
                       | .ok none => .ok none
                       | .err e => .err e
                       | .panic s => .panic s
                       | .fuel => .fuel)
    | .ok none => .ok none
    | .err e => .err e
    | .panic s => .panic s
    | .fuel => .fuel

/-- run `f` on an argument document if there is one -/
def withArg (b : Bytes) (a : Arg Bytes) (f : Bytes → Res (Option Bytes)) : Res (Option Bytes) :=
  match argOf b a with
  | .ok (some w) => f w
  | .ok none => .ok none
  | .err _ => .ok none
  | .panic s => .panic s
  | .fuel => .fuel

/-- a selection result: the appended bytes, or nothing when no item was selected -/
def selDoc : Res (Bytes × List Nat) → Res (Option Bytes)
  | .ok (d, _) => if d.isEmpty then .ok none else .ok (some d)
  | .err _ => .ok none
  | .panic s => .panic s
  | .fuel => .fuel

def chainStep (b : Bytes) : ChainOp Bytes → Res (Option Bytes)
  | .concat a l => withArg b a (fun w => refuse (if l then concat w b [] else concat b w []))
  | .delName n => refuse (deleteByName b n [])
  | .delIdx i => refuse (deleteByIndex b i [])
  | .delKp kp => refuse (deleteByKeypath b kp [])
  | .arrIns p a => withArg b a (fun w => refuse (arrayInsert b p w []))
  | .objIns k a u => withArg b a (fun w => refuse (objectInsert b k w u []))
  | .objDel ks => refuse (objectFilter false b ks [])
  | .objPick ks => refuse (objectFilter true b ks [])
  | .strip => refuse (stripNulls b [])
  | .getIdx i => getByIndex b i
  | .getName n ic => getByName b n ic
  | .getKp kp => getByKeypath b kp
  | .keys => objectKeys b
  | .distinct => refuse (arrayDistinct b [])
  | .inter a => withArg b a (fun w => refuse (arraySetOp true b w []))
  | .except a => withArg b a (fun w => refuse (arraySetOp false b w []))
  | .wrapArr as =>
    (match argsOf b as with
     | .ok (some ws) => refuse (buildArray ws [])
     | .ok none => .ok none
     | .err _ => .ok none
     | .panic s => .panic s
     | .fuel => .fuel)
  | .wrapObj kas =>
    (match kargsOf b kas with
     | .ok (some ws) => refuse (buildObject ws [])
     | .ok none => .ok none
     | .err _ => .ok none
     | .panic s => .panic s
     | .fuel => .fuel)
  | .selFirst jp => selDoc (Sel.select jp .first b [] [] (Sel.selFuel b jp))
  | .selArr jp => selDoc (Sel.select jp .array b [] [] (Sel.selFuel b jp))

/-- all intermediate documents of a chain, the start excluded -/
def runChain (b : Bytes) : List (ChainOp Bytes) → Res (List Bytes)
  | [] => .ok []
  | op :: ops =>
    match chainStep b op with
    | .ok r =>
      let b' := r.getD b
      (match runChain b' ops with
       | .ok bs => .ok (b' :: bs)
       | .err e => .err e
       | .panic s => .panic s
       | .fuel => .fuel)
    | .err e => .err e
    | .panic s => .panic s
    | .fuel => .fuel

end Fn
end Jsonb
