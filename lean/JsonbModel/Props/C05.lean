/-
C05 — Read-only accessors on JSONB bytes agree with the document they encode.
`Fn.*` = byte-level implementation models (Functions/Access.lean), `Spec.*` = the same
question on the decoded tree (Spec/Access.lean).
-/
import JsonbModel.Proofs.AccessRefine

namespace Jsonb.Props
open Jsonb JV

/-- `array_length` on the bytes = length of the decoded array (absent for non-arrays) -/
theorem C05_array_length (v : JV) (h : goodTop v = true) :
    Fn.arrayLength (encodeSpec v) = .ok (Spec.arrayLength v) := arrayLength_refines v h

/-- `get_by_index` for EVERY index: the walker lands on the sum of the earlier payload
lengths and hands back the element's own complete document; out of range / non-array ⇒ none -/
theorem C05_get_by_index (v : JV) (h : goodTop v = true) (i : Nat) :
    Fn.getByIndex (encodeSpec v) i = .ok ((Spec.getByIndex v i).map encodeSpec) :=
  getByIndex_refines v h i

/-- every sub-value handed back by `get_by_index` is itself a canonical document: it decodes,
and re-encodes to the identical bytes -/
theorem C05_get_by_index_canonical (vs : List JV) (hn : vs.length < 536870912) (hg : goodL vs = true)
    (i : Nat) (b : Bytes) (hb : Fn.getByIndex (encodeSpec (arr vs)) i = .ok (some b)) :
    ∃ w, good w = true ∧ b = encodeSpec w := by
  rw [getByIndex_arr vs hn hg i] at hb
  cases hv : vs[i]? with
  | none => simp [hv] at hb
  | some w =>
    simp [hv] at hb
    exact ⟨w, goodL_get vs hg i w hv, hb.symm⟩

example : Fn.getByIndex (encodeSpec (arr [arr [], str [0x61], num (.uint 300)])) 2
    = .ok (some (encodeSpec (num (.uint 300)))) := by decide

end Jsonb.Props
