/-
C05 — Read-only accessors on JSONB bytes agree with the document they encode.
`Fn.*` = byte-level implementation models (Functions/Access.lean), `Spec.*` = the same
question on the decoded tree (Spec/Access.lean).
-/
import JsonbModel.Proofs.AccessRefine
import JsonbModel.Proofs.AccessDocs
import JsonbModel.Proofs.AccessRefine5
import JsonbModel.Proofs.AccessCasts

namespace Jsonb.Props
open Jsonb JV

/-- `array_length` on the bytes = length of the decoded array (absent for non-arrays) -/
theorem C05_array_length (v : JV) (h : goodTop v = true) :
    Fn.arrayLength (encodeSpec v) = .ok (Spec.arrayLength v) := arrayLength_refines v h

/-- `get_by_index` for EVERY index: the walker lands on the sum of the earlier payload
lengths and hands back the element's own complete document; out of range / non-array ⇒ none -/
theorem C05_get_by_index (v : JV) (h : goodTop v = true) (i : Nat) :
    Fn.getByIndex (encodeSpec v) i = .ok ((Spec.getByIndex v i).map encodeSpec) :=
  getByIndex_refines v h i

/-- every sub-value handed back by `get_by_index` is itself a canonical document: it decodes,
and re-encodes to the identical bytes -/
theorem C05_get_by_index_canonical (vs : List JV) (hn : vs.length < 536870912) (hg : goodL vs = true)
    (i : Nat) (b : Bytes) (hb : Fn.getByIndex (encodeSpec (arr vs)) i = .ok (some b)) :
    ∃ w, good w = true ∧ b = encodeSpec w := by
  rw [getByIndex_arr vs hn hg i] at hb
  cases hv : vs[i]? with
  | none => simp [hv] at hb
  | some w =>
    simp [hv] at hb
    exact ⟨w, goodL_get vs hg i w hv, hb.symm⟩

/-- member by name: exact match first, otherwise (flag on) the first key in key order that
matches ignoring ASCII case -/
theorem C05_get_by_name (v : JV) (h : goodTop v = true) (name : Bytes) (ic : Bool) :
    Fn.getByName (encodeSpec v) name ic = .ok ((Spec.getByName v name ic).map encodeSpec) :=
  getByName_refines v h name ic

/-- sub-value by key path: negative indices from the end, `i = len` and out-of-range absent,
name steps on objects only, paths past scalars absent -/
theorem C05_get_by_keypath (v : JV) (h : goodTop v = true) (path : List KeyPath) :
    Fn.getByKeypath (encodeSpec v) path = .ok ((Spec.getByKeypath v path).map encodeSpec) :=
  getByKeypath_refines v h path

theorem C05_object_keys (v : JV) (h : goodTop v = true) :
    Fn.objectKeys (encodeSpec v) = .ok ((Spec.objectKeys v).map encodeSpec) := objectKeys_refines v h
theorem C05_object_each (v : JV) (h : goodTop v = true) :
    Fn.objectEach (encodeSpec v)
      = .ok ((Spec.objectEach v).map (fun kvs => kvs.map (fun kv => (kv.1, encodeSpec kv.2)))) :=
  objectEach_refines v h
theorem C05_array_values (v : JV) (h : goodTop v = true) :
    Fn.arrayValues (encodeSpec v) = .ok ((Spec.arrayValues v).map (fun vs => vs.map encodeSpec)) :=
  arrayValues_refines v h
theorem C05_type_of (v : JV) (h : goodTop v = true) : Fn.typeOf (encodeSpec v) = .ok (Spec.typeOf v) :=
  typeOf_refines v h
theorem C05_as_null (v : JV) (h : goodTop v = true) : Fn.asNull (encodeSpec v) = .ok (Spec.asNull v) :=
  asNull_refines v h
theorem C05_as_bool (v : JV) (h : goodTop v = true) : Fn.asBool (encodeSpec v) = .ok (Spec.asBool v) :=
  asBool_refines v h
theorem C05_as_str (v : JV) (h : goodTop v = true) : Fn.asStr (encodeSpec v) = .ok (Spec.asStr v) :=
  asStr_refines v h
/-- numbers come back with the codec's normal form (Int64(0) as UInt64(0), any NaN canonical) -/
theorem C05_as_number (v : JV) (h : goodTop v = true) :
    Fn.asNumber (encodeSpec v) = .ok ((Spec.asNumber v).map Num.norm) := asNumber_refines v h
theorem C05_is_array (v : JV) (h : goodTop v = true) : Fn.isArray (encodeSpec v) = Spec.isArray v :=
  isArray_refines v h
theorem C05_is_object (v : JV) (h : goodTop v = true) : Fn.isObject (encodeSpec v) = Spec.isObject v :=
  isObject_refines v h
theorem C05_exists_all_keys (v : JV) (h : goodTop v = true) (keys : List Bytes) :
    Fn.existsAllKeys (encodeSpec v) keys = .ok (Spec.existsAllKeys v keys) := existsAllKeys_refines v h keys
theorem C05_exists_any_keys (v : JV) (h : goodTop v = true) (keys : List Bytes) :
    Fn.existsAnyKeys (encodeSpec v) keys = .ok (Spec.existsAnyKeys v keys) := existsAnyKeys_refines v h keys
/-- the string traversal finds a hit iff some string value OR object key satisfies the test -/
theorem C05_traverse_check_string (v : JV) (h : goodTop v = true) (p : Bytes → Bool) :
    Fn.traverseCheckString (encodeSpec v) p = .ok (Spec.anyString p v) :=
  traverseCheckString_refines v h p

/-- every sub-value handed back is itself a complete canonical document -/
theorem C05_subvalues_canonical_name (v : JV) (h : goodTop v = true) (name : Bytes) (ic : Bool) (bs : Bytes)
    (hb : Fn.getByName (encodeSpec v) name ic = .ok (some bs)) : ∃ w, good w = true ∧ bs = encodeSpec w :=
  getByName_doc v h name ic bs hb
theorem C05_subvalues_canonical_keypath (v : JV) (h : goodTop v = true) (path : List KeyPath) (bs : Bytes)
    (hb : Fn.getByKeypath (encodeSpec v) path = .ok (some bs)) :
    ∃ w, goodTop w = true ∧ bs = encodeSpec w ∧ (path ≠ [] → good w = true) :=
  getByKeypath_doc v h path bs hb

/-! ### the casts (`Spec.toBool / toI64 / toU64 / toF64 / toStr`, `Spec.asI64 / asU64 / asF64`, `Spec.is*` are
written on the tree in Proofs/AccessCasts.lean: the number view if present, else a bool as 1 / 0, else
the string through Rust's `str::parse` (modelled: `Fn.parseI64 / parseU64 / parseF64`), else `InvalidCast`) -/

theorem C05_as_i64 (v : JV) (h : goodTop v = true) : Fn.asI64 (encodeSpec v) = .ok (Spec.asI64 v) := C05casts.asI64_refines v h
theorem C05_as_u64 (v : JV) (h : goodTop v = true) : Fn.asU64 (encodeSpec v) = .ok (Spec.asU64 v) := C05casts.asU64_refines v h
theorem C05_to_bool (v : JV) (h : goodTop v = true) : Fn.toBool (encodeSpec v) = Spec.toBool v := C05casts.toBool_refines v h
theorem C05_to_i64 (v : JV) (h : goodTop v = true) : Fn.toI64 (encodeSpec v) = Spec.toI64 v := C05casts.toI64_refines v h
theorem C05_to_u64 (v : JV) (h : goodTop v = true) : Fn.toU64 (encodeSpec v) = Spec.toU64 v := C05casts.toU64_refines v h
/-- the whole public functions (sniffing included) on JSONB input; `topCount v < 2^24` is known finding D21 -/
theorem C05_as_f64 (v : JV) (h : goodTop v = true) (hs : topCount v < 16777216) :
    T.asF64 (encodeSpec v) = .ok (Spec.asF64 v) := C05casts.T_asF64_refines v h hs
theorem C05_to_f64 (v : JV) (h : goodTop v = true) (hs : topCount v < 16777216) :
    T.toF64 (encodeSpec v) = Spec.toF64 v := C05casts.T_toF64_refines v h hs
theorem C05_to_str (v : JV) (h : goodTop v = true) (hs : topCount v < 16777216) (fmt : Nat → Bytes) :
    T.toStr fmt (encodeSpec v) = Spec.toStr fmt v := C05casts.T_toStr_refines v h hs fmt
theorem C05_is_kinds (v : JV) (h : goodTop v = true) (hs : topCount v < 16777216) :
    T.isNull (encodeSpec v) = .ok (Spec.isNull v) ∧ T.isBoolean (encodeSpec v) = .ok (Spec.isBoolean v) ∧
    T.isNumber (encodeSpec v) = .ok (Spec.isNumber v) ∧ T.isString (encodeSpec v) = .ok (Spec.isString v) ∧
    T.isI64 (encodeSpec v) = .ok (Spec.isI64 v) ∧ T.isU64 (encodeSpec v) = .ok (Spec.isU64 v) ∧
    T.isF64 (encodeSpec v) = .ok (Spec.isF64 v) :=
  ⟨C05casts.T_isNull_refines v h hs, C05casts.T_isBoolean_refines v h hs, C05casts.T_isNumber_refines v h hs,
   C05casts.T_isString_refines v h hs, C05casts.T_isI64_refines v h hs, C05casts.T_isU64_refines v h hs,
   C05casts.T_isF64_refines v h hs⟩
/-- the integer views are exact or absent -/
theorem C05_as_i64_exact (v : JV) (i : Int) (hv : Spec.asI64 v = some i) :
    ∃ n, v = num n ∧ (n = .int i ∨ ∃ u, n = .uint u ∧ (u : Int) = i) := C05casts.asI64_exact v i hv
theorem C05_as_u64_exact (v : JV) (u : Nat) (hv : Spec.asU64 v = some u) :
    ∃ n, v = num n ∧ (n = .uint u ∨ ∃ j, n = .int j ∧ j = (u : Int)) := C05casts.asU64_exact v u hv

example : Fn.getByIndex (encodeSpec (arr [arr [], str [0x61], num (.uint 300)])) 2
    = .ok (some (encodeSpec (num (.uint 300)))) := by decide

end Jsonb.Props
