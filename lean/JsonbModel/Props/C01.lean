/-
C01 — Binary encoding round-trips every value and is exactly the documented layout.
ONLY property theorems and non-vacuity examples here; helper lemmas live in Proofs/.

`encodeSpec` (Value.lean) is the README layout written as a pure function: header word =
tag + count, one entry word = type + exact payload byte length per element, object keys once,
ahead of the values.  `parseJsonb` is the model of de.rs, `toVec` the model of ser.rs.
-/
import JsonbModel.Proofs.TopLevel
import JsonbModel.Proofs.SerLayout

namespace Jsonb.Props
open Jsonb JV

/-- decode ∘ encode = the value (up to the two documented representation changes `norm`:
`Int64(0)` comes back `UInt64(0)`, every NaN comes back as `f64::NAN`); integers exact, floats
bit-for-bit, infinities preserved — for every nesting shape and depth. -/
theorem C01_roundtrip (v : JV) (h : goodTop v = true) :
    parseJsonb (encodeSpec v) = .ok (norm v) := parseJsonb_encodeSpec v h

/-- re-encoding the decoded value reproduces the identical bytes -/
theorem C01_reencode (v : JV) : encodeSpec (norm v) = encodeSpec v := encodeSpec_norm v

/-- the implementation (reserve-then-patch `Encoder`) writes exactly the README layout -/
theorem C01_layout (v : JV) (h : goodTop v = true) : toVec v = .ok (encodeSpec v) :=
  toVec_eq_encodeSpec v h

/-- so the real pipeline round-trips: decode (to_vec v) = v, and to_vec of that = to_vec v -/
theorem C01_pipeline (v : JV) (h : goodTop v = true) :
    (toVec v).bind parseJsonb = .ok (norm v) ∧ toVec (norm v) = toVec v := by
  constructor
  · rw [C01_layout v h]; exact C01_roundtrip v h
  · rw [C01_layout v h, C01_layout (norm v) (goodTop_norm v h), C01_reencode]

/-- byte equality coincides with value identity -/
theorem C01_injective (v w : JV) (hv : goodTop v = true) (hw : goodTop w = true)
    (h : encodeSpec v = encodeSpec w) : norm v = norm w := by
  have h1 := C01_roundtrip v hv
  have h2 := C01_roundtrip w hw
  rw [h] at h1
  rw [h1] at h2
  exact Res.ok.inj h2

/-- every number is stored in its shortest form (1, 2, 3, 5 or 9 bytes) -/
theorem C01_number_shortest (n : Num) : (Num.enc n).length = Num.minWidth n := Num.enc_length n

/-- each entry word carries the type and the exact byte length of its payload -/
theorem C01_entry_len_exact (v : JV) : (entry v).1 = ety v + (entry v).2.length := entry_fst v

/-! non-vacuity: a nested document with a multi-byte key, an empty container before a later
element, numbers of three widths, satisfies the hypotheses -/
def sample : JV :=
  .obj [([0xC3, 0xA9], .arr [.arr [], .num (.int (-129)), .str [0x61]]),
        ([0xC3, 0xA9, 0x00], .obj [([], .num (.float F64.canonNaN)), ([0x6B], .num (.uint 70000))])]

example : goodTop sample = true := by decide
example : parseJsonb (encodeSpec sample) = .ok (norm sample) := C01_roundtrip sample (by decide)

end Jsonb.Props
