/-
C03 — Rendering JSONB as text yields valid JSON that denotes the same document.
`Fn.toStringDoc` = byte-level model of to_string / to_pretty_string; `Strict.parse` = the
independent strict RFC 8259 reader (Spec/StrictJson.lean).  The general theorems are added in
Proofs/ToString*.lean; what is stated here is kernel-checked.
-/
import JsonbModel.Functions.ToString
import JsonbModel.Spec.StrictJson
import JsonbModel.Spec.Order

namespace Jsonb.Props
open Jsonb

/-- the escaper never emits a raw control character (the defect repaired in /repo): every byte
of the escaped text is ≥ 0x20 — first per input byte (all 256 checked by the kernel), then lifted -/
theorem escape_one_no_control : ∀ n, n < 256 → ∀ b ∈ Fn.escapeBytes [UInt8.ofNat n], 0x20 ≤ b := by
  decide +kernel

theorem C03_no_raw_control (s : Bytes) : ∀ b ∈ Fn.escapeBytes s, 0x20 ≤ b := by
  induction s with
  | nil => simp [Fn.escapeBytes]
  | cons c cs ih =>
    intro b hb
    have h1 : Fn.escapeBytes (c :: cs) = Fn.escapeBytes [c] ++ Fn.escapeBytes cs := by
      simp [Fn.escapeBytes]
    rw [h1, List.mem_append] at hb
    cases hb with
    | inr h => exact ih b h
    | inl h =>
      have := escape_one_no_control c.toNat c.toNat_lt b
      rw [show UInt8.ofNat c.toNat = c by simp] at this
      exact this h

/-- every control character, quote and backslash, as a value and as a key, round-trips through
the strict reader (kernel-evaluated witness of the repaired defect) -/
example : (Strict.parse (match Fn.toStringDoc (fun _ => []) false
    (JV.encodeSpec (.obj [([0x01, 0x22], .arr [.str [0x00, 0x1F, 0x5C, 0x7F, 0xC3, 0xA9], .num (.int (-5))])])) with
    | .ok t => t | _ => [])).map JV.encodeSpec
    = some (JV.encodeSpec (.obj [([0x01, 0x22], .arr [.str [0x00, 0x1F, 0x5C, 0x7F, 0xC3, 0xA9], .num (.int (-5))])])) := by
  decide +kernel

end Jsonb.Props
