/-
C03 — Rendering JSONB as text yields valid JSON that denotes the same document.
`Fn.toStringDoc` = byte-level model of to_string / to_pretty_string; `Strict.parse` = the
independent strict RFC 8259 reader (Spec/StrictJson.lean).  The general theorems are added in
Proofs/ToString*.lean; what is stated here is kernel-checked.
-/
import JsonbModel.Functions.ToString
import JsonbModel.Spec.StrictJson
import JsonbModel.Spec.Order
import JsonbModel.Proofs.ToStringPretty

namespace Jsonb.Props
open Jsonb

/-- the escaper never emits a raw control character (the defect repaired in /repo): every byte
of the escaped text is ≥ 0x20 — first per input byte (all 256 checked by the kernel), then lifted -/
theorem escape_one_no_control : ∀ n, n < 256 → ∀ b ∈ Fn.escapeBytes [UInt8.ofNat n], 0x20 ≤ b := by
  decide +kernel

theorem C03_no_raw_control (s : Bytes) : ∀ b ∈ Fn.escapeBytes s, 0x20 ≤ b := by
  induction s with
  | nil => simp [Fn.escapeBytes]
  | cons c cs ih =>
    intro b hb
    have h1 : Fn.escapeBytes (c :: cs) = Fn.escapeBytes [c] ++ Fn.escapeBytes cs := by
      simp [Fn.escapeBytes]
    rw [h1, List.mem_append] at hb
    cases hb with
    | inr h => exact ih b h
    | inl h =>
      have := escape_one_no_control c.toNat c.toNat_lt b
      rw [show UInt8.ofNat c.toNat = c by simp] at this
      exact this h

/-- the strict string reader inverts the escaper byte for byte, for EVERY byte string (all
control characters, quotes, backslashes, DEL, multi-byte UTF-8) -/
theorem C03_unescape_escape (s rest : Bytes) (fuel : Nat) (hf : s.length + 1 ≤ fuel) :
    Strict.strBody fuel (Fn.escapeBytes s ++ (0x22 :: rest)) = some (s, rest) :=
  strBody_escape s rest fuel hf

/-- **both renderings are strict RFC 8259 JSON denoting the same document**: for every good
document and every float formatter that is good on its floats (`fmtOK`: validated per instance
for ryu), compact (`p = false`) and pretty (`p = true`) text is accepted by the independent
strict parser and the value read is equal to the original — identical when the original
stores its non-negative integers unsigned -/
theorem C03_strict_valid_and_same (fmt : Nat → Bytes) (p : Bool) (v : JV) (hg : JV.goodTop v = true)
    (hok : fmtOK fmt v) :
    ∃ text v', Fn.toStringDoc fmt p (JV.encodeSpec v) = .ok text ∧ Strict.parse text = some v' ∧
      Spec.valEq v' v = true ∧ (Driver.allUnsigned v = true → v' = v) :=
  strict_toStringDoc fmt p v hg hok

/-- re-encoding the parsed text gives the identical JSONB bytes when non-negative integers are
stored unsigned -/
theorem C03_reencode (fmt : Nat → Bytes) (v : JV) (hg : JV.goodTop v = true) (hok : fmtOK fmt v)
    (hu : Driver.allUnsigned v = true) :
    ∃ text v', Fn.toStringDoc fmt false (JV.encodeSpec v) = .ok text ∧ Strict.parse text = some v' ∧
      JV.encodeSpec v' = JV.encodeSpec v := reencode_toString fmt v hg hok hu

/-- the pretty rendering differs from the compact one only in insignificant whitespace -/
theorem C03_pretty_is_compact_modulo_ws (fmt : Nat → Bytes) (v : JV) (hg : JV.goodTop v = true)
    (hok : fmtOK fmt v) :
    ∃ tp t, Fn.toStringDoc fmt true (JV.encodeSpec v) = .ok tp ∧ Fn.toStringDoc fmt false (JV.encodeSpec v) = .ok t ∧
      Strict.stripWs false tp = t := stripWs_pretty fmt v hg hok

/-- every control character, quote and backslash, as a value and as a key, round-trips through
the strict reader (kernel-evaluated witness of the repaired defect) -/
example : (Strict.parse (match Fn.toStringDoc (fun _ => []) false
    (JV.encodeSpec (.obj [([0x01, 0x22], .arr [.str [0x00, 0x1F, 0x5C, 0x7F, 0xC3, 0xA9], .num (.int (-5))])])) with
    | .ok t => t | _ => [])).map JV.encodeSpec
    = some (JV.encodeSpec (.obj [([0x01, 0x22], .arr [.str [0x00, 0x1F, 0x5C, 0x7F, 0xC3, 0xA9], .num (.int (-5))])])) := by
  decide +kernel

end Jsonb.Props
