/-
C12 — Containment follows the PostgreSQL @> rules, using the same equality as compare.
`Spec.contains` is the rule set as a function on trees; `Fn.contains` the byte-level model.
-/
import JsonbModel.Proofs.ContainsLaws
import JsonbModel.Proofs.ContainsRefine
import JsonbModel.Functions.Order

namespace Jsonb.Props
open Jsonb JV Spec

/-- an array contains an array iff every right element is matched by some left element: scalars
by equality, containers by containment (order and multiplicity ignored) -/
theorem C12_array_rule (ls rs : List JV) :
    contains (arr ls) (arr rs) = true ↔
      ∀ r ∈ rs, if isScalarJ r = true then ∃ x ∈ ls, valEq x r = true
        else ∃ x ∈ ls, contains x r = true := contains_arr_arr ls rs
theorem C12_array_order_ignored {ls rs rs' : List JV} (hp : rs.Perm rs') :
    contains (arr ls) (arr rs) = contains (arr ls) (arr rs') := contains_arr_perm_right hp
theorem C12_array_multiplicity_ignored (ls rs : List JV) :
    contains (arr ls) (arr (rs ++ rs)) = contains (arr ls) (arr rs) := contains_arr_dup ls rs

/-- an object contains an object iff it contains every member under the same key -/
theorem C12_object_rule (lk rk : List (Bytes × JV)) :
    contains (obj lk) (obj rk) = true ↔
      ∀ kr ∈ rk, ∃ l, lookup kr.1 lk = some l ∧ sameKind l kr.2 = true ∧ contains l kr.2 = true :=
  contains_obj_obj lk rk

/-- a bare scalar on the right is contained by an equal scalar or by a top-level array holding
an equal element; scalars contain only equals -/
theorem C12_scalar_rule (l : JV) {r : JV} (hr : isScalarJ r = true) :
    contains l r = true ↔
      (isScalarJ l = true ∧ valEq l r = true) ∨ ∃ ls, l = arr ls ∧ ∃ x ∈ ls, valEq x r = true :=
  contains_scalar_right l hr

/-- equality of scalars is the equality that compare reports -/
theorem C12_scalar_eq_is_compare_eq {l r : JV} (hl : isScalarJ l = true) (hr : isScalarJ r = true) :
    contains l r = true ↔ cmpJV l r = .eq := contains_scalar_iff_cmpJV hl hr

/-- reflexive and transitive -/
theorem C12_refl (a : JV) (h : good a = true) : contains a a = true := contains_refl_of_good a h
theorem C12_trans {a b c : JV} (ha : good a = true) (hb : good b = true) (hc : good c = true)
    (h1 : contains a b = true) (h2 : contains b c = true) : contains a c = true :=
  contains_trans (numsWF_of_good a ha) (numsWF_of_good b hb) (numsWF_of_good c hc) h1 h2

/-- **byte-level refinement**: on the encodings of any two good documents (any size, any depth)
the byte walker `contains_jsonb` (offset arithmetic, `array_contains`, member search by key,
`scalar_eq`) returns exactly the rule-based tree function; its `Err → false` conversion is never
exercised; the fuel is adequate -/
theorem C12_contains_refines (a b : JV) (ha : goodTop a = true) (hb : goodTop b = true) :
    Fn.contains (encodeSpec a) (encodeSpec b) = .ok (contains a b) := Fn.contains_refines a b ha hb
theorem C12_contains_no_error (a b : JV) (ha : goodTop a = true) (hb : goodTop b = true) :
    Fn.containsJsonb (2 * ((encodeSpec a).length + (encodeSpec b).length) + 8) (encodeSpec a) (encodeSpec b)
      = .ok (contains a b) := Fn.containsJsonb_no_error a b ha hb
/-- hence the real layout-level function is reflexive on every good document -/
theorem C12_bytes_refl (a : JV) (ha : good a = true) :
    Fn.contains (encodeSpec a) (encodeSpec a) = .ok true := Fn.contains_bytes_refl a ha

/-- numerically equal numbers match whatever their encoding (the defect repaired in /repo) -/
example : contains (arr [num (.uint 1)]) (num (.float 0x3ff0000000000000)) = true := by decide
example : Fn.contains (encodeSpec (arr [num (.uint 1)])) (encodeSpec (num (.float 0x3ff0000000000000)))
    = .ok true := by decide +kernel

end Jsonb.Props
