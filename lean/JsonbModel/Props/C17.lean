/-
C17 — Functions that write into a caller's buffer only append to it.
-/
import JsonbModel.Proofs.SerLayout
import JsonbModel.Proofs.SetRefine
import JsonbModel.Proofs.AppendOnly
import JsonbModel.Proofs.SerFrameAny

namespace Jsonb.Props
open Jsonb JV

/-- `Value::write_to_vec`: whatever the buffer held before is left untouched, and what is
appended is exactly what is written into an empty buffer -/
theorem C17_write_to_vec (pre : Bytes) (v : JV) (h : goodTop v = true) :
    writeToVec pre v = (writeToVec [] v).map (pre ++ ·) := by
  rw [writeToVec_spec pre v h, writeToVec_spec [] v h]; simp [Res.map, Res.bind]

/-- nested values too: `encode_value` at any buffer position appends the payload only -/
theorem C17_encode_value (buf : Bytes) (v : JV) (h : good v = true) :
    ∃ ty len, encValue buf v = .ok (buf ++ (entry v).2, ty, len) :=
  ⟨_, _, encValue_spec v h buf⟩

/-- both builders (the writers behind every editor and set function), with nested builders:
the prior content is a prefix of the result and the appended part does not depend on it -/
theorem C17_array_builder (pre : Bytes) (es : List BEntry) :
    buildArrayInto pre es = (buildArrayInto [] es).map (pre ++ ·) := by
  rw [buildArrayInto_spec, buildArrayInto_spec]; simp [Res.map, Res.bind]
theorem C17_object_builder (pre : Bytes) (kvs : List (Bytes × BEntry)) :
    buildObjectInto pre kvs = (buildObjectInto [] kvs).map (pre ++ ·) := by
  rw [buildObjectInto_spec, buildObjectInto_spec]; simp [Res.map, Res.bind]

/-- editors inherit it: e.g. delete_by_index, concat, array_distinct on array documents -/
theorem C17_delete_by_index (vs : List JV) (hn : vs.length < 536870912) (hg : goodL vs = true)
    (i : Int) (hi : -2147483648 ≤ i ∧ i ≤ 2147483647) (pre : Bytes) :
    Fn.deleteByIndex (encodeSpec (arr vs)) i pre
      = (Fn.deleteByIndex (encodeSpec (arr vs)) i []).map (pre ++ ·) := by
  rw [deleteByIndex_arr vs hn hg i hi pre, deleteByIndex_arr vs hn hg i hi []]; simp [Res.map, Res.bind]
theorem C17_array_distinct (vs : List JV) (hn : vs.length < 536870912) (hg : goodL vs = true) (pre : Bytes) :
    Fn.arrayDistinct (encodeSpec (arr vs)) pre
      = (Fn.arrayDistinct (encodeSpec (arr vs)) []).map (pre ++ ·) := by
  rw [arrayDistinct_arr vs hn hg pre, arrayDistinct_arr vs hn hg []]; simp [Res.map, Res.bind]

example : writeToVec [1, 2, 3] (.arr [.null, .str [0x61]]) =
    .ok ([1, 2, 3] ++ encodeSpec (.arr [.null, .str [0x61]])) := by decide

/-! ### unconditional frame theorems: EVERY input (valid or not), every prior buffer

A documented error has no buffer at all in the model (`Res Bytes`): nothing is appended. -/

theorem C17_concat (left right buf : Bytes) :
    Fn.concat left right buf = (Fn.concat left right []).map (buf ++ ·) := Fn.concat_frame left right buf
theorem C17_delete_by_name (value name buf : Bytes) :
    Fn.deleteByName value name buf = (Fn.deleteByName value name []).map (buf ++ ·) := Fn.deleteByName_frame value name buf
theorem C17_delete_by_index_any (value : Bytes) (i : Int) (buf : Bytes) :
    Fn.deleteByIndex value i buf = (Fn.deleteByIndex value i []).map (buf ++ ·) := Fn.deleteByIndex_frame value i buf
theorem C17_delete_by_keypath (value : Bytes) (kp : List KeyPath) (buf : Bytes) :
    Fn.deleteByKeypath value kp buf = (Fn.deleteByKeypath value kp []).map (buf ++ ·) := Fn.deleteByKeypath_frame value kp buf
theorem C17_array_insert (value : Bytes) (pos : Int) (new buf : Bytes) :
    Fn.arrayInsert value pos new buf = (Fn.arrayInsert value pos new []).map (buf ++ ·) := Fn.arrayInsert_frame value pos new buf
theorem C17_object_insert (value key new : Bytes) (update : Bool) (buf : Bytes) :
    Fn.objectInsert value key new update buf = (Fn.objectInsert value key new update []).map (buf ++ ·) :=
  Fn.objectInsert_frame value key new update buf
theorem C17_object_delete_pick (pick : Bool) (value : Bytes) (keys : List Bytes) (buf : Bytes) :
    Fn.objectFilter pick value keys buf = (Fn.objectFilter pick value keys []).map (buf ++ ·) :=
  Fn.objectFilter_frame pick value keys buf
theorem C17_strip_nulls (value buf : Bytes) :
    Fn.stripNulls value buf = (Fn.stripNulls value []).map (buf ++ ·) := Fn.stripNulls_frame value buf
theorem C17_array_distinct_any (value buf : Bytes) :
    Fn.arrayDistinct value buf = (Fn.arrayDistinct value []).map (buf ++ ·) := Fn.arrayDistinct_frame value buf
theorem C17_array_intersection_except (keep : Bool) (v1 v2 buf : Bytes) :
    Fn.arraySetOp keep v1 v2 buf = (Fn.arraySetOp keep v1 v2 []).map (buf ++ ·) := Fn.arraySetOp_frame keep v1 v2 buf
theorem C17_build_array (items : List Bytes) (buf : Bytes) :
    Fn.buildArray items buf = (Fn.buildArray items []).map (buf ++ ·) := Fn.buildArray_frame items buf
theorem C17_build_object (items : List (Bytes × Bytes)) (buf : Bytes) :
    Fn.buildObject items buf = (Fn.buildObject items []).map (buf ++ ·) := Fn.buildObject_frame items buf
theorem C17_convert_to_comparable (value buf : Bytes) :
    Fn.convertToComparable value buf = (Fn.convertToComparable value []).map (buf ++ ·) :=
  convertToComparable_frame value buf

/-- **path selection in every mode, predicate paths too**: prior data and prior offsets are
prefixes of the results, the appended bytes are those of the empty-buffer call, and the reported
offsets are positions in that same buffer -/
theorem C17_select (jp : JsonPath) (mode : Sel.Mode) (root data : Bytes) (offs : List Nat) (fuel : Nat) :
    Sel.select jp mode root data offs fuel
      = (Sel.select jp mode root [] [] fuel).map (fun r => (data ++ r.1, offs ++ r.2.map (· + data.length))) :=
  Sel.select_frame jp mode root data offs fuel

/-- the public functions including their text branch: e.g. `convert_to_comparable`, `get_by_path*` -/
theorem C17_T_convert_to_comparable (value buf : Bytes) :
    T.convertToComparable value buf = (T.convertToComparable value []).map (buf ++ ·) :=
  T_convertToComparable_frame value buf

/-- **`Value::write_to_vec` for EVERY value (also outside the format's field widths) and every prior
buffer**: the prior bytes are a prefix, the appended bytes are those written into an empty buffer, and
the encoder model never panics -/
theorem C17_write_to_vec_any (pre : Bytes) (v : JV) : writeToVec pre v = (writeToVec [] v).map (pre ++ ·) :=
  writeToVec_frame pre v
theorem C17_write_to_vec_total (pre : Bytes) (v : JV) : ∃ app, writeToVec pre v = .ok (pre ++ app) :=
  writeToVec_ok pre v

end Jsonb.Props
