/-
C17 — Functions that write into a caller's buffer only append to it.
-/
import JsonbModel.Proofs.SerLayout

namespace Jsonb.Props
open Jsonb JV

/-- `Value::write_to_vec`: whatever the buffer held before is left untouched, and what is
appended is exactly what is written into an empty buffer -/
theorem C17_write_to_vec (pre : Bytes) (v : JV) (h : goodTop v = true) :
    writeToVec pre v = (writeToVec [] v).map (pre ++ ·) := by
  rw [writeToVec_spec pre v h, writeToVec_spec [] v h]; simp [Res.map, Res.bind]

/-- nested values too: `encode_value` at any buffer position appends the payload only -/
theorem C17_encode_value (buf : Bytes) (v : JV) (h : good v = true) :
    ∃ ty len, encValue buf v = .ok (buf ++ (entry v).2, ty, len) :=
  ⟨_, _, encValue_spec v h buf⟩

example : writeToVec [1, 2, 3] (.arr [.null, .str [0x61]]) =
    .ok ([1, 2, 3] ++ encodeSpec (.arr [.null, .str [0x61]])) := by decide

end Jsonb.Props
