/-
C17 — Functions that write into a caller's buffer only append to it.
-/
import JsonbModel.Proofs.SerLayout
import JsonbModel.Proofs.SetRefine

namespace Jsonb.Props
open Jsonb JV

/-- `Value::write_to_vec`: whatever the buffer held before is left untouched, and what is
appended is exactly what is written into an empty buffer -/
theorem C17_write_to_vec (pre : Bytes) (v : JV) (h : goodTop v = true) :
    writeToVec pre v = (writeToVec [] v).map (pre ++ ·) := by
  rw [writeToVec_spec pre v h, writeToVec_spec [] v h]; simp [Res.map, Res.bind]

/-- nested values too: `encode_value` at any buffer position appends the payload only -/
theorem C17_encode_value (buf : Bytes) (v : JV) (h : good v = true) :
    ∃ ty len, encValue buf v = .ok (buf ++ (entry v).2, ty, len) :=
  ⟨_, _, encValue_spec v h buf⟩

/-- both builders (the writers behind every editor and set function), with nested builders:
the prior content is a prefix of the result and the appended part does not depend on it -/
theorem C17_array_builder (pre : Bytes) (es : List BEntry) :
    buildArrayInto pre es = (buildArrayInto [] es).map (pre ++ ·) := by
  rw [buildArrayInto_spec, buildArrayInto_spec]; simp [Res.map, Res.bind]
theorem C17_object_builder (pre : Bytes) (kvs : List (Bytes × BEntry)) :
    buildObjectInto pre kvs = (buildObjectInto [] kvs).map (pre ++ ·) := by
  rw [buildObjectInto_spec, buildObjectInto_spec]; simp [Res.map, Res.bind]

/-- editors inherit it: e.g. delete_by_index, concat, array_distinct on array documents -/
theorem C17_delete_by_index (vs : List JV) (hn : vs.length < 536870912) (hg : goodL vs = true)
    (i : Int) (hi : -2147483648 ≤ i ∧ i ≤ 2147483647) (pre : Bytes) :
    Fn.deleteByIndex (encodeSpec (arr vs)) i pre
      = (Fn.deleteByIndex (encodeSpec (arr vs)) i []).map (pre ++ ·) := by
  rw [deleteByIndex_arr vs hn hg i hi pre, deleteByIndex_arr vs hn hg i hi []]; simp [Res.map, Res.bind]
theorem C17_array_distinct (vs : List JV) (hn : vs.length < 536870912) (hg : goodL vs = true) (pre : Bytes) :
    Fn.arrayDistinct (encodeSpec (arr vs)) pre
      = (Fn.arrayDistinct (encodeSpec (arr vs)) []).map (pre ++ ·) := by
  rw [arrayDistinct_arr vs hn hg pre, arrayDistinct_arr vs hn hg []]; simp [Res.map, Res.bind]

example : writeToVec [1, 2, 3] (.arr [.null, .str [0x61]]) =
    .ok ([1, 2, 3] ++ encodeSpec (.arr [.null, .str [0x61]])) := by decide

end Jsonb.Props
