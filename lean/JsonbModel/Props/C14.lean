/-
C14 — The comparable key sorts bytewise exactly as compare orders documents.

On the unchanged tree this property is FALSE in three specific ways (known findings D14 a/b/c,
recorded in /verif/known_findings.json; the key format would have to change to repair them).
The negations are proved here with concrete witnesses that the check replays on the real code;
any OTHER disagreement between key order and `compare` is reported as a violation.
`keyOf` = the byte-level model of `convert_to_comparable` on the document's encoding.
-/
import JsonbModel.KeyOfDef
import JsonbModel.Proofs.KeyOrder

namespace Jsonb.Props
open Jsonb JV

/-- (a) raw string bytes collide with the depth/level markers: `["a", null]` < `["a\u0001"]` by
`compare`, but its key sorts AFTER — the key is not an order embedding -/
theorem C14_not_embedding_string_prefix :
    Spec.cmpJV (arr [str [0x61], null]) (arr [str [0x61, 0x01]]) = .lt ∧
    lexCmp (keyOf (arr [str [0x61], null])) (keyOf (arr [str [0x61, 0x01]])) = .gt := by decide +kernel

/-- … and two different documents can even share one key -/
theorem C14_not_injective_string_prefix :
    Spec.cmpJV (arr [str [0x61], null]) (arr [str [0x61, 0x01, 0x07]]) = .lt ∧
    keyOf (arr [str [0x61], null]) = keyOf (arr [str [0x61, 0x01, 0x07]]) := by decide +kernel

/-- (b) numbers go through `as_f64`: distinct integers above 2^53 share a key -/
theorem C14_not_injective_big_integers :
    Spec.cmpJV (num (.uint 9007199254740992)) (num (.uint 9007199254740993)) = .lt ∧
    keyOf (num (.uint 9007199254740992)) = keyOf (num (.uint 9007199254740993)) := by decide +kernel

/-- (c) `-0.0` and `0` compare Equal but their keys differ -/
theorem C14_signed_zero :
    Spec.cmpJV (num (.float 0x8000000000000000)) (num (.uint 0)) = .eq ∧
    lexCmp (keyOf (num (.float 0x8000000000000000))) (keyOf (num (.uint 0))) = .lt := by decide +kernel

/-- **the positive theorem on the restricted domain `D`** (`Spec.inD`: every string and key byte
≥ 0x20, nesting depth < 32, every number key-exact: integers exactly representable as a double,
floats other than -0.0): the bytewise order of the keys IS `compare`, and keys are equal
exactly for equal documents -/
theorem C14_embedding_partial (a b : JV) (ga : goodTop a = true) (gb : goodTop b = true)
    (ha : Spec.inD a = true) (hb : Spec.inD b = true) :
    Fn.compareDocs (encodeSpec a) (encodeSpec b) = .ok (lexCmp (keyOf a) (keyOf b)) ∧
    lexCmp (keyOf a) (keyOf b) = Spec.cmpJV a b := C14_on_D a b ga gb ha hb
theorem C14_key_eq_iff_partial (a b : JV) (ga : goodTop a = true) (gb : goodTop b = true)
    (ha : Spec.inD a = true) (hb : Spec.inD b = true) :
    keyOf a = keyOf b ↔ Fn.compareDocs (encodeSpec a) (encodeSpec b) = .ok .eq :=
  C14_key_eq_iff a b ga gb ha hb

/-- the byte walker writes the tree-level key into any prior buffer (frame property, C17) -/
theorem C14_key_refines (v : JV) (hg : goodTop v = true) (hd : Spec.cdepth v ≤ 255) (buf : Bytes) :
    Fn.convertToComparable (encodeSpec v) buf = .ok (buf ++ Spec.keyOf 0 v) :=
  Fn.convertToComparable_refines v hg hd buf

/-- defect class (a) is "string byte ≤ the depth byte that follows", not just control bytes:
beyond nesting depth 32 printable bytes collide too (why `D` bounds the depth) -/
theorem C14_not_embedding_deep :
    Spec.cmpJV (nestArr 32 (arr [str [0x61], null])) (nestArr 32 (arr [str [0x61, 0x21]])) = .lt ∧
    lexCmp (keyOf (nestArr 32 (arr [str [0x61], null]))) (keyOf (nestArr 32 (arr [str [0x61, 0x21]]))) = .gt :=
  ⟨key_not_embedding_deep.1, key_not_embedding_deep.2.2⟩

example : Spec.inD (arr [obj [([0x6B], num (.int (-9007199254740992)))], str [0xC3, 0xA9], num (.float 0x7FF8000000000001)]) = true := by
  decide +kernel

/-- sanity: on an ordinary pair the key order agrees with compare -/
example : Spec.cmpJV (arr [num (.uint 1), str [0x62]]) (arr [num (.float 0x3ff0000000000000), str [0x61]]) = .gt ∧
    lexCmp (keyOf (arr [num (.uint 1), str [0x62]])) (keyOf (arr [num (.float 0x3ff0000000000000), str [0x61]])) = .gt := by
  decide +kernel

end Jsonb.Props
