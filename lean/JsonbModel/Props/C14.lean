/-
C14 — The comparable key sorts bytewise exactly as compare orders documents.

On the unchanged tree this property is FALSE in three specific ways (known findings D14 a/b/c,
recorded in /verif/known_findings.json; the key format would have to change to repair them).
The negations are proved here with concrete witnesses that the check replays on the real code;
any OTHER disagreement between key order and `compare` is reported as a violation.
`keyOf` = the byte-level model of `convert_to_comparable` on the document's encoding.
-/
import JsonbModel.Functions.Order
import JsonbModel.Spec.Order

namespace Jsonb.Props
open Jsonb JV

def keyOf (v : JV) : Bytes :=
  match Fn.convertToComparable (encodeSpec v) [] with
  | .ok k => k
  | _ => []

/-- (a) raw string bytes collide with the depth/level markers: `["a", null]` < `["a\u0001"]` by
`compare`, but its key sorts AFTER — the key is not an order embedding -/
theorem C14_not_embedding_string_prefix :
    Spec.cmpJV (arr [str [0x61], null]) (arr [str [0x61, 0x01]]) = .lt ∧
    lexCmp (keyOf (arr [str [0x61], null])) (keyOf (arr [str [0x61, 0x01]])) = .gt := by decide +kernel

/-- … and two different documents can even share one key -/
theorem C14_not_injective_string_prefix :
    Spec.cmpJV (arr [str [0x61], null]) (arr [str [0x61, 0x01, 0x07]]) = .lt ∧
    keyOf (arr [str [0x61], null]) = keyOf (arr [str [0x61, 0x01, 0x07]]) := by decide +kernel

/-- (b) numbers go through `as_f64`: distinct integers above 2^53 share a key -/
theorem C14_not_injective_big_integers :
    Spec.cmpJV (num (.uint 9007199254740992)) (num (.uint 9007199254740993)) = .lt ∧
    keyOf (num (.uint 9007199254740992)) = keyOf (num (.uint 9007199254740993)) := by decide +kernel

/-- (c) `-0.0` and `0` compare Equal but their keys differ -/
theorem C14_signed_zero :
    Spec.cmpJV (num (.float 0x8000000000000000)) (num (.uint 0)) = .eq ∧
    lexCmp (keyOf (num (.float 0x8000000000000000))) (keyOf (num (.uint 0))) = .lt := by decide +kernel

/-- sanity: on an ordinary pair the key order agrees with compare -/
example : Spec.cmpJV (arr [num (.uint 1), str [0x62]]) (arr [num (.float 0x3ff0000000000000), str [0x61]]) = .gt ∧
    lexCmp (keyOf (arr [num (.uint 1), str [0x62]])) (keyOf (arr [num (.float 0x3ff0000000000000), str [0x61]])) = .gt := by
  decide +kernel

end Jsonb.Props
