/-
C16 — Key-path syntax parses to its meaning, prints back faithfully and never panics.
`parseKeyPaths` = literal model of keypath.rs over the nom 7.1.3 combinator model (Nom.lean),
sharing `raw_string` / `string` / `check_escaped` / `util::parse_string` with the JSONPath parser.
-/
import JsonbModel.Proofs.PathFuel
import JsonbModel.Proofs.PathRoundTrip2
import JsonbModel.Proofs.PathRoundTrip

namespace Jsonb.Props
open Jsonb
open PathRT2

/-- for EVERY byte string the parser returns key paths or an error: no panic site is reachable
(unterminated quotes, missing braces, truncated escapes included) and the fuel never runs out -/
theorem C16_total (bs : Bytes) :
    (∃ ps, parseKeyPaths bs = .ok ps) ∨ (∃ e, parseKeyPaths bs = .err e) := parseKeyPaths_total bs
theorem C16_never_panics (bs : Bytes) (s : String) : parseKeyPaths bs ≠ .panic s :=
  parseKeyPaths_ne_panic bs s

/-- printing key paths and parsing the printout gives back the same elements whenever the names
need no escapes (`goodKP`: index in i32; quoted name without `\` and `"`; plain name non-empty,
made of name characters, not starting with white space, not readable as an i32) -/
theorem C16_print_parse (ps : List KeyPath) (h : ps.all PathRT.goodKP = true) :
    parseKeyPaths (printKeyPaths ps) = .ok ps := parseKeyPaths_printKeyPaths ps h

/-- the empty list is the empty path -/
theorem C16_empty : parseKeyPaths (printKeyPaths []) = .ok [] := parseKeyPaths_printKeyPaths_nil

/-- the unterminated quote that used to panic is an error now -/
example : (parseKeyPaths [0x7B, 0x22, 0x61, 0x62, 0x63]).isOk = false ∧
    (parseKeyPaths [0x7B, 0x22, 0x61, 0x62, 0x63]).isPanic = false := by decide +kernel
example : [KeyPath.index (-2), .name [0x61], .quoted [0x62, 0x20, 0x63], .quoted []].all PathRT.goodKP = true := by
  decide +kernel

/-- **every brace-delimited list with any spacing**: `RKeyList ks t` = `t` renders the elements
`ks` (a decimal i32 → index, a quoted string with its escapes decoded → quoted name, anything else
made of name characters → plain name) with arbitrary white-space runs around elements and commas;
every such text, with white space around the braces, parses to `ks` -/
theorem C16_every_rendering {ks : List KeyPath} {t : Bytes} (h : PathRT2.RKeyList ks t) (w0 w1 : Bytes)
    (hw0 : PathRT2.Ws w0) (hw1 : PathRT2.Ws w1) : parseKeyPaths (w0 ++ 123 :: (t ++ 125 :: w1)) = .ok ks :=
  parseKeyPaths_rendering h w0 w1 hw0 hw1
/-- the empty list with any spacing is the empty path -/
theorem C16_empty_any_spacing (w0 w w1 : Bytes) (hw0 : PathRT2.Ws w0) (hw : PathRT2.Ws w) (hw1 : PathRT2.Ws w1) :
    parseKeyPaths (w0 ++ 123 :: (w ++ 125 :: w1)) = .ok [] := parseKeyPaths_rendering_empty w0 w w1 hw0 hw hw1

end Jsonb.Props
