/-
C16 — Key-path syntax parses to its meaning, prints back faithfully and never panics.
`parseKeyPaths` = literal model of keypath.rs over the nom 7.1.3 combinator model (Nom.lean),
sharing `raw_string` / `string` / `check_escaped` / `util::parse_string` with the JSONPath parser.
-/
import JsonbModel.Proofs.PathFuel
import JsonbModel.Proofs.PathRoundTrip

namespace Jsonb.Props
open Jsonb

/-- for EVERY byte string the parser returns key paths or an error: no panic site is reachable
(unterminated quotes, missing braces, truncated escapes included) and the fuel never runs out -/
theorem C16_total (bs : Bytes) :
    (∃ ps, parseKeyPaths bs = .ok ps) ∨ (∃ e, parseKeyPaths bs = .err e) := parseKeyPaths_total bs
theorem C16_never_panics (bs : Bytes) (s : String) : parseKeyPaths bs ≠ .panic s :=
  parseKeyPaths_ne_panic bs s

/-- printing key paths and parsing the printout gives back the same elements whenever the names
need no escapes (`goodKP`: index in i32; quoted name without `\` and `"`; plain name non-empty,
made of name characters, not starting with white space, not readable as an i32) -/
theorem C16_print_parse (ps : List KeyPath) (h : ps.all PathRT.goodKP = true) :
    parseKeyPaths (printKeyPaths ps) = .ok ps := parseKeyPaths_printKeyPaths ps h

/-- the empty list is the empty path -/
theorem C16_empty : parseKeyPaths (printKeyPaths []) = .ok [] := parseKeyPaths_printKeyPaths_nil

/-- the unterminated quote that used to panic is an error now -/
example : (parseKeyPaths [0x7B, 0x22, 0x61, 0x62, 0x63]).isOk = false ∧
    (parseKeyPaths [0x7B, 0x22, 0x61, 0x62, 0x63]).isPanic = false := by decide +kernel
example : [KeyPath.index (-2), .name [0x61], .quoted [0x62, 0x20, 0x63], .quoted []].all PathRT.goodKP = true := by
  decide +kernel

end Jsonb.Props
