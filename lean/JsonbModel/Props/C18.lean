/-
C18 — Numbers keep their exact value through the codec and are ordered by that value.
-/
import JsonbModel.Proofs.NumCodec
import JsonbModel.Proofs.DecTotal
import JsonbModel.Proofs.NumOrd
import JsonbModel.Proofs.AsF64Neg

namespace Jsonb.Props
open Jsonb

/-- every i64, u64 and f64 bit pattern survives encode/decode exactly; `norm` is the identity
except `Int64(0) ↦ UInt64(0)` (same value) and NaN ↦ the canonical NaN -/
theorem C18_codec (n : Num) (h : n.WF) : Num.dec (Num.enc n) = .ok (Num.norm n) := Num.dec_enc n h

/-- non-NaN floats are bit-for-bit, infinities preserved -/
theorem C18_bits (b : Nat) (h : b < 18446744073709551616) (hn : F64.isNaN b = false) :
    Num.dec (Num.enc (.float b)) = .ok (.float b) := by
  rw [Num.dec_enc (.float b) h]; simp [Num.norm, hn]

/-- integers are exact -/
theorem C18_int_exact (i : Int) (h : (Num.int i).WF) (h0 : i ≠ 0) :
    Num.dec (Num.enc (.int i)) = .ok (.int i) := by
  rw [Num.dec_enc _ h]; simp [Num.norm, h0]
theorem C18_uint_exact (n : Nat) (h : (Num.uint n).WF) :
    Num.dec (Num.enc (.uint n)) = .ok (.uint n) := by
  rw [Num.dec_enc _ h]; simp [Num.norm]

/-- the shortest of the 1, 2, 3, 5 or 9 byte forms -/
theorem C18_shortest (n : Num) : (Num.enc n).length = Num.minWidth n := Num.enc_length n

/-- malformed number bytes are never a panic -/
theorem C18_decode_total (bs : Bytes) (s : String) : Num.dec bs ≠ .panic s := Num.dec_ne_panic bs s

/-- empty input, and trailing bytes after a one-byte form, are rejected -/
theorem C18_malformed_empty : Num.dec [] = .err "InvalidJsonbNumber" := rfl
theorem C18_malformed_trailing (t x : UInt8) (xs : Bytes)
    (h : t.toNat = C.NUMBER_ZERO ∨ t.toNat = C.NUMBER_NAN ∨ t.toNat = C.NUMBER_INF ∨ t.toNat = C.NUMBER_NEG_INF) :
    Num.dec (t :: x :: xs) = .err "InvalidJsonbNumber" := by
  simp [Num.dec, h]

/-- the i64 / u64 views are exact or absent, never a different value -/
theorem C18_view_i64 (n : Num) (i : Int) (h : Num.asI64 n = some i) :
    (n = .int i) ∨ (∃ u, n = .uint u ∧ (u : Int) = i) := by
  cases n with
  | int j => simp [Num.asI64] at h; simp [h]
  | uint u => simp [Num.asI64] at h; right; exact ⟨u, rfl, h.2⟩
  | float b => simp [Num.asI64] at h
theorem C18_view_u64 (n : Num) (u : Nat) (h : Num.asU64 n = some u) :
    (n = .uint u) ∨ (∃ j, n = .int j ∧ j = (u : Int)) := by
  cases n with
  | int j => simp [Num.asU64] at h; right; exact ⟨j, rfl, by omega⟩
  | uint w => simp [Num.asU64] at h; simp [h]
  | float b => simp [Num.asU64] at h

/-! ### ordering: `Num.cmp` is the literal model of `impl Ord for Number` (NumOrd.lean);
`ExtVal.cmp ∘ Num.val` is the mathematical order of the exact values, NaN greatest. -/

/-- the implementation order IS the exact-value order, across the three representations -/
theorem C18_order_is_value_order (a b : Num) (ha : a.WF) (hb : b.WF) :
    Num.cmp a b = ExtVal.cmp (Num.val a) (Num.val b) := Num.cmp_eq_spec a b ha hb

/-- hence a total order: reflexive, antisymmetric, transitive -/
theorem C18_order_refl (a : Num) (ha : a.WF) : Num.cmp a a = .eq := Num.cmp_refl a ha
theorem C18_order_antisymm (a b : Num) (ha : a.WF) (hb : b.WF) :
    Num.cmp b a = (Num.cmp a b).swap := Num.cmp_antisymm a b ha hb
theorem C18_order_trans (a b c : Num) (ha : a.WF) (hb : b.WF) (hc : c.WF)
    (h1 : Num.cmp a b ≠ .gt) (h2 : Num.cmp b c ≠ .gt) : Num.cmp a c ≠ .gt :=
  Num.cmp_trans a b c ha hb hc h1 h2
theorem C18_eq_trans (a b c : Num) (ha : a.WF) (hb : b.WF) (hc : c.WF)
    (h1 : Num.cmp a b = .eq) (h2 : Num.cmp b c = .eq) : Num.cmp a c = .eq :=
  Num.cmp_eq_trans a b c ha hb hc h1 h2

/-- a signed and an unsigned integer are equal exactly when they are the same integer -/
theorem C18_int_uint_eq (i : Int) (n : Nat) : Num.cmp (.int i) (.uint n) = .eq ↔ i = n :=
  Num.cmp_int_uint_eq_iff i n
/-- an integer and a float are equal only if the float's exact value is that integer -/
theorem C18_int_float_eq (i : Int) (b : Nat) (hi : (Num.int i).WF) (hb : (Num.float b).WF) :
    Num.cmp (.int i) (.float b) = .eq ↔ (F64.val b).isInt i := Num.cmp_int_float_eq_iff i b hi hb
theorem C18_uint_float_eq (n : Nat) (b : Nat) (hn : (Num.uint n).WF) (hb : (Num.float b).WF) :
    Num.cmp (.uint n) (.float b) = .eq ↔ (F64.val b).isInt n := Num.cmp_uint_float_eq_iff n b hn hb
/-- NaN is equal to itself (any payload) and greatest -/
theorem C18_nan_eq (a b : Nat) (ha : F64.isNaN a = true) (hb : F64.isNaN b = true) :
    Num.cmp (.float a) (.float b) = .eq := Num.cmp_nan_nan a b ha hb
theorem C18_nan_greatest (a : Num) (b : Nat) (ha : a.WF) (hb : (Num.float b).WF)
    (hn : F64.isNaN b = true) : Num.cmp a (.float b) ≠ .gt := Num.cmp_nan_greatest a b ha hb hn

/-- the f64 view of an unsigned integer is the nearest double: its exact value `rval n` is
within half an ulp of `n` (ties to even by construction), exact below 2^53, monotone -/
theorem C18_view_f64 (n : Nat) (hn : n < 18446744073709551616) :
    (F64.val (Num.asF64 (.uint n))).isInt (F64.rval n) ∧
    2 * (F64.rval n - n) ≤ 2 ^ (Nat.log2 n - 52) ∧ 2 * (n - F64.rval n) ≤ 2 ^ (Nat.log2 n - 52) ∧
    (n < 9007199254740992 → F64.rval n = n) := Num.asF64_uint n hn
theorem C18_view_f64_mono (n m : Nat) (h : n ≤ m) : F64.ofNatRNE n ≤ F64.ofNatRNE m :=
  F64.ofNatRNE_mono n m h

/-- the defect repaired by the `fix:` commit: 2^53+1 is greater than 2^53.0, 2^53 equals it -/
example : Num.cmp (.uint 9007199254740993) (.float 0x4340000000000000) = .gt := by decide
example : Num.cmp (.uint 9007199254740992) (.float 0x4340000000000000) = .eq := by decide

example : (Num.int (-9223372036854775808)).WF ∧ (Num.float 0xFFF8000000000001).WF := by decide

/-- **the f64 view of every i64 (negative ones too)** is the nearest double: it denotes the integer
`irval i`, which is within half a unit in the last place of `i` (ties to even by construction of the
rounding), equal to `i` up to 2^53 in magnitude; the view is monotone -/
theorem C18_as_f64_int (i : Int) (hlo : -9223372036854775808 ≤ i) (hhi : i ≤ 9223372036854775807) :
    (F64.val (Num.asF64 (.int i))).isInt (F64.irval i) ∧
    2 * (F64.irval i - i) ≤ ((2 ^ (Nat.log2 i.natAbs - 52) : Nat) : Int) ∧
    2 * (i - F64.irval i) ≤ ((2 ^ (Nat.log2 i.natAbs - 52) : Nat) : Int) ∧
    (i.natAbs ≤ 9007199254740992 → F64.irval i = i) := Num.asF64_int i hlo hhi
theorem C18_as_f64_int_monotone (i j : Int) (hij : i ≤ j)
    (hlo : -9223372036854775808 ≤ i) (hhi : j ≤ 9223372036854775807) :
    F64.ge (Num.asF64 (.int j)) (Num.asF64 (.int i)) = true := Num.asF64_int_mono i j hij hlo hhi

end Jsonb.Props
