/-
C18 — Numbers keep their exact value through the codec and are ordered by that value.
-/
import JsonbModel.Proofs.NumCodec
import JsonbModel.Proofs.DecTotal

namespace Jsonb.Props
open Jsonb

/-- every i64, u64 and f64 bit pattern survives encode/decode exactly; `norm` is the identity
except `Int64(0) ↦ UInt64(0)` (same value) and NaN ↦ the canonical NaN -/
theorem C18_codec (n : Num) (h : n.WF) : Num.dec (Num.enc n) = .ok (Num.norm n) := Num.dec_enc n h

/-- non-NaN floats are bit-for-bit, infinities preserved -/
theorem C18_bits (b : Nat) (h : b < 18446744073709551616) (hn : F64.isNaN b = false) :
    Num.dec (Num.enc (.float b)) = .ok (.float b) := by
  rw [Num.dec_enc (.float b) h]; simp [Num.norm, hn]

/-- integers are exact -/
theorem C18_int_exact (i : Int) (h : (Num.int i).WF) (h0 : i ≠ 0) :
    Num.dec (Num.enc (.int i)) = .ok (.int i) := by
  rw [Num.dec_enc _ h]; simp [Num.norm, h0]
theorem C18_uint_exact (n : Nat) (h : (Num.uint n).WF) :
    Num.dec (Num.enc (.uint n)) = .ok (.uint n) := by
  rw [Num.dec_enc _ h]; simp [Num.norm]

/-- the shortest of the 1, 2, 3, 5 or 9 byte forms -/
theorem C18_shortest (n : Num) : (Num.enc n).length = Num.minWidth n := Num.enc_length n

/-- malformed number bytes are never a panic -/
theorem C18_decode_total (bs : Bytes) (s : String) : Num.dec bs ≠ .panic s := Num.dec_ne_panic bs s

/-- empty input, and trailing bytes after a one-byte form, are rejected -/
theorem C18_malformed_empty : Num.dec [] = .err "InvalidJsonbNumber" := rfl
theorem C18_malformed_trailing (t x : UInt8) (xs : Bytes)
    (h : t.toNat = C.NUMBER_ZERO ∨ t.toNat = C.NUMBER_NAN ∨ t.toNat = C.NUMBER_INF ∨ t.toNat = C.NUMBER_NEG_INF) :
    Num.dec (t :: x :: xs) = .err "InvalidJsonbNumber" := by
  simp [Num.dec, h]

/-- the i64 / u64 views are exact or absent, never a different value -/
theorem C18_view_i64 (n : Num) (i : Int) (h : Num.asI64 n = some i) :
    (n = .int i) ∨ (∃ u, n = .uint u ∧ (u : Int) = i) := by
  cases n with
  | int j => simp [Num.asI64] at h; simp [h]
  | uint u => simp [Num.asI64] at h; right; exact ⟨u, rfl, h.2⟩
  | float b => simp [Num.asI64] at h
theorem C18_view_u64 (n : Num) (u : Nat) (h : Num.asU64 n = some u) :
    (n = .uint u) ∨ (∃ j, n = .int j ∧ j = (u : Int)) := by
  cases n with
  | int j => simp [Num.asU64] at h; right; exact ⟨j, rfl, by omega⟩
  | uint w => simp [Num.asU64] at h; simp [h]
  | float b => simp [Num.asU64] at h

example : (Num.int (-9223372036854775808)).WF ∧ (Num.float 0xFFF8000000000001).WF := by decide

end Jsonb.Props
