/-
C15 — Selection modes and path predicates are mutually consistent.
`Sel.select / exists_ / predicateMatch` = model of `Selector::select / exists / predicate_match`.
-/
import JsonbModel.Proofs.SelectModes
import JsonbModel.Proofs.ModesConsistent

namespace Jsonb.Props
open Jsonb Sel

/-- first-mode returns the first item of all-mode or nothing (same frontier, truncated to one) -/
theorem C15_first (jp : JsonPath) (root data : Bytes) (offs : List Nat) (fuel : Nat) (ps : List Pos)
    (hp : findPositions fuel root none jp = .ok ps) (hnp : isPredicate jp = false) :
    select jp .first root data offs fuel = buildValues root (ps.take 1) data offs ∧
    select jp .all root data offs fuel = buildValues root ps data offs :=
  first_is_take_one jp root data offs fuel ps hp hnp

/-- mixed-mode equals array-mode when there are two or more items and all-mode otherwise -/
theorem C15_mixed (jp : JsonPath) (root data : Bytes) (offs : List Nat) (fuel : Nat) (ps : List Pos)
    (hp : findPositions fuel root none jp = .ok ps) (hnp : isPredicate jp = false) :
    select jp .mixed root data offs fuel
      = if ps.length > 1 then select jp .array root data offs fuel else select jp .all root data offs fuel :=
  mixed_rule jp root data offs fuel ps hp hnp

/-- existence is true exactly when all-mode returns something -/
theorem C15_exists_iff (jp : JsonPath) (root : Bytes) (fuel : Nat) (ps : List Pos) (d : Bytes) (o : List Nat)
    (hp : findPositions fuel root none jp = .ok ps) (hnp : isPredicate jp = false)
    (ha : select jp .all root [] [] fuel = .ok (d, o)) :
    exists_ jp root fuel = .ok (!o.isEmpty) := exists_iff_all_nonempty jp root fuel ps d o hp hnp ha

/-- the offsets reported alongside the data delimit the returned items one by one: one offset
per item, none beyond the data, the last one at its end -/
theorem C15_offsets_delimit (root : Bytes) (ps : List Pos) (d : Bytes) (o : List Nat)
    (h : buildValues root ps [] [] = .ok (d, o)) :
    o.length = ps.length ∧ (∀ x ∈ o, x ≤ d.length) ∧ (ps ≠ [] → o.getLast? = some d.length) :=
  buildValues_offsets root ps d o h

/-- for a predicate path every mode returns the single boolean that path_match reports, and
existence is true -/
theorem C15_predicate (jp : JsonPath) (root data : Bytes) (offs : List Nat) (fuel : Nat) (ps : List Pos)
    (hp : findPositions fuel root none jp = .ok ps) (hpred : isPredicate jp = true) (m : Mode) :
    select jp m root data offs fuel
      = .ok (data ++ (u32be C.SCALAR_CONTAINER_TAG ++ u32be (if ps.isEmpty then C.FALSE_TAG else C.TRUE_TAG)), offs) ∧
    predicateMatch jp root fuel = .ok (!ps.isEmpty) ∧ exists_ jp root fuel = .ok true :=
  predicate_all_modes jp root data offs fuel ps hp hpred m

/-! ### between the model results of the four modes, on every good document (no spec in between) -/

/-- **array-mode returns one array holding exactly the all-mode items**: the documents delimited
by the all-mode offsets are the elements of the array-mode result, for any prior buffer -/
theorem C15_array_holds_all_items (v : JV) (hg : JV.goodTop v = true) (jp : JsonPath) (hok : okPaths jp = true)
    (hnp : isPredicate jp = false) (fuel : Nat) (dataAll : Bytes) (offsAll : List Nat)
    (hall : select jp .all (JV.encodeSpec v) [] [] fuel = .ok (dataAll, offsAll))
    (hsmall : (JV.encodeSpec v).length < 268435456) :
    ∃ items, dataAll = items.flatMap JV.encodeSpec ∧ offsAll = ends 0 items ∧
      (items.length < 536870912 → ∀ data offs,
        select jp .array (JV.encodeSpec v) data offs fuel
          = .ok (data ++ JV.encodeSpec (.arr items), offs ++ [(data ++ JV.encodeSpec (.arr items)).length])) :=
  array_holds_all_items v hg jp hok hnp hsmall fuel dataAll offsAll hall

/-- the offsets of all-mode cut its data into exactly the items -/
theorem C15_offsets_cut_items (ws : List JV) :
    chunks (ws.flatMap JV.encodeSpec) 0 (ends 0 ws) = ws.map JV.encodeSpec := chunks_ends ws

/-- first-mode, stated on the all-mode answer alone: the bytes up to the first offset, or nothing -/
theorem C15_first_from_all (v : JV) (hg : JV.goodTop v = true) (jp : JsonPath) (hok : okPaths jp = true)
    (hnp : isPredicate jp = false) (fuel : Nat) (dataAll : Bytes) (offsAll : List Nat)
    (hall : select jp .all (JV.encodeSpec v) [] [] fuel = .ok (dataAll, offsAll)) (data : Bytes) (offs : List Nat) :
    select jp .first (JV.encodeSpec v) data offs fuel = .ok (firstCut dataAll offsAll data offs) :=
  first_from_all_bytes v hg jp hok hnp fuel dataAll offsAll hall data offs

/-- **all four modes from one item list**, or all four fail alike -/
theorem C15_modes_consistent (v : JV) (hg : JV.goodTop v = true) (jp : JsonPath) (hok : okPaths jp = true)
    (hnp : isPredicate jp = false) (hsmall : (JV.encodeSpec v).length < 268435456) (fuel : Nat) :
    (∃ items : List JV,
      (∀ data offs, select jp .all (JV.encodeSpec v) data offs fuel
          = .ok (data ++ items.flatMap JV.encodeSpec, offs ++ ends data.length items)) ∧
      (∀ data offs, select jp .first (JV.encodeSpec v) data offs fuel
          = .ok (data ++ (items.take 1).flatMap JV.encodeSpec, offs ++ ends data.length (items.take 1))) ∧
      (items.length < 536870912 → ∀ data offs,
        select jp .array (JV.encodeSpec v) data offs fuel
          = .ok (data ++ JV.encodeSpec (.arr items), offs ++ [(data ++ JV.encodeSpec (.arr items)).length]) ∧
        select jp .mixed (JV.encodeSpec v) data offs fuel
          = if items.length > 1 then select jp .array (JV.encodeSpec v) data offs fuel
            else select jp .all (JV.encodeSpec v) data offs fuel)) ∨
    (∃ failure : Res (Bytes × List Nat), failure.isOk = false ∧
      ∀ m data offs, select jp m (JV.encodeSpec v) data offs fuel = failure) :=
  modes_consistent v hg jp hok hnp hsmall fuel

end Jsonb.Props
