/-
C08 — JSONPath evaluation returns exactly the items the path denotes.
`Sel.*` = model of selector.rs (frontier of positions with raw offsets); `Spec.evalPaths` = the
documented meaning on the tree (Spec/PathEval.lean).
-/
import JsonbModel.Proofs.SelectModes
import JsonbModel.Spec.PathEval
import JsonbModel.Proofs.PathFuel
import JsonbModel.Proofs.SelectRefine9
import JsonbModel.Proofs.ParserShape
import JsonbModel.Proofs.SelFuel
import JsonbModel.Proofs.SelectRefine10

namespace Jsonb.Props
open Jsonb Sel

/-- the evaluator has no reachable `todo!()`: an expression it cannot handle (arithmetic) is an
error of the model, not a panic; together with C09_total every accepted path is evaluated to a
result or an error as far as the filter dispatcher is concerned -/
theorem C08_filter_dispatch_total (fuel : Nat) (root : Bytes) (pos : Pos) (op : UnOp) (e : Expr) :
    filterExpr (fuel + 1) root pos (.arithUnary op e) = .err "InvalidJsonPath" := by
  simp [filterExpr]
theorem C08_filter_dispatch_total' (fuel : Nat) (root : Bytes) (pos : Pos) (op : ArithOp) (l r : Expr) :
    filterExpr (fuel + 1) root pos (.arithBinary op l r) = .err "InvalidJsonPath" := by
  simp [filterExpr]

/-- index arithmetic cannot overflow: `last + n` for every i32 `n` and every array length is
computed exactly (i64 in the code, ℤ here) and kept only when in range -/
theorem C08_convert_index_in_range (i : Index) (length : Int) (k : Nat)
    (h : convertIndex i length = some k) : (k : Int) < length := by
  unfold convertIndex at h
  cases i with
  | index n =>
    simp only at h
    split at h
    · simp at h; omega
    · simp at h
  | last n =>
    simp only at h
    split at h
    · simp at h; omega
    · simp at h

/-- the writers of the item modes only append, and offsets are positions in that same buffer -/
theorem C08_select_all_appends (jp : JsonPath) (root data : Bytes) (offs : List Nat) (fuel : Nat)
    (hnp : isPredicate jp = false) :
    select jp .all root data offs fuel
      = (select jp .all root [] [] fuel).map (fun r => (data ++ r.1, offs ++ r.2.map (· + data.length))) :=
  select_all_frame jp root data offs fuel hnp

/-! ### Refinement: the byte-level selector returns exactly the items the path denotes

`Ev g r` : the fuel-indexed spec evaluator `g` returns `some r` for every large enough fuel.
`okPaths` : comparison operands that are paths start with `$` or `@` (all the parser builds).
`suppPaths` : decidable description of the ASTs `parse_json_path` can build (steps, index lists,
nested filters with `&&`/`||`/`exists`, comparison of operand paths and literals). -/

/-- **all mode** (`get_by_path`, `select_by_path`): whenever the selector answers, the bytes it
appended are the canonical encodings of exactly the denoted items, in document order, each
delimited by its end offset — for every good document, path, prior buffer and fuel -/
theorem C08_select_all_refines (v₀ : JV) (hg : JV.goodTop v₀ = true) (jp : JsonPath) (hok : okPaths jp = true)
    (hnp : isPredicate jp = false) (fuel : Nat) (data : Bytes) (offs : List Nat) (r : Bytes × List Nat)
    (h : select jp .all (JV.encodeSpec v₀) data offs fuel = .ok r) :
    ∃ items, Ev (fun f => Spec.evalPaths f v₀ none jp) items ∧
      r = (data ++ items.flatMap JV.encodeSpec, offs ++ ends data.length items) :=
  select_all_refines v₀ hg jp hok hnp fuel data offs r h

/-- … and conversely (completeness, no panic, errors only where the path has no meaning) -/
theorem C08_select_all_exact (v₀ : JV) (hg : JV.goodTop v₀ = true) (jp : JsonPath) (hs : suppPaths jp = true)
    (hhead : jp.head? ≠ some .current) (hnp : isPredicate jp = false) (data : Bytes) (offs : List Nat) :
    ∃ F, ∀ fuel, F ≤ fuel →
      (∃ items, Ev (fun f => Spec.evalPaths f v₀ none jp) items ∧
        select jp .all (JV.encodeSpec v₀) data offs fuel
          = .ok (data ++ items.flatMap JV.encodeSpec, offs ++ ends data.length items)) ∨
      (∃ e, select jp .all (JV.encodeSpec v₀) data offs fuel = .err e ∧
        ∀ f, Spec.evalPaths f v₀ none jp = none) :=
  select_all_exact v₀ hg jp hs hhead hnp data offs

theorem C08_select_all_no_panic (v₀ : JV) (hg : JV.goodTop v₀ = true) (jp : JsonPath) (hs : suppPaths jp = true)
    (hhead : jp.head? ≠ some .current) (fuel : Nat) (data : Bytes) (offs : List Nat) (s : String) :
    select jp .all (JV.encodeSpec v₀) data offs fuel ≠ .panic s :=
  select_all_no_panic v₀ hg jp hs hhead fuel data offs s

/-- **first mode** = the first denoted item -/
theorem C08_select_first_refines (v₀ : JV) (hg : JV.goodTop v₀ = true) (jp : JsonPath) (hok : okPaths jp = true)
    (hnp : isPredicate jp = false) (fuel : Nat) (data : Bytes) (offs : List Nat) (r : Bytes × List Nat)
    (h : select jp .first (JV.encodeSpec v₀) data offs fuel = .ok r) :
    ∃ items, Ev (fun f => Spec.evalPaths f v₀ none jp) items ∧
      r = (data ++ (items.take 1).flatMap JV.encodeSpec, offs ++ ends data.length (items.take 1)) :=
  select_first_refines v₀ hg jp hok hnp fuel data offs r h

/-- **array mode** = one canonical array of the denoted items -/
theorem C08_select_array_refines (v₀ : JV) (hg : JV.goodTop v₀ = true) (jp : JsonPath) (hok : okPaths jp = true)
    (hnp : isPredicate jp = false) (hsmall : (JV.encodeSpec v₀).length < 268435456)
    (fuel : Nat) (data : Bytes) (offs : List Nat) (r : Bytes × List Nat)
    (h : select jp .array (JV.encodeSpec v₀) data offs fuel = .ok r) :
    ∃ items, Ev (fun f => Spec.evalPaths f v₀ none jp) items ∧
      (items.length < 536870912 →
        r = (data ++ JV.encodeSpec (.arr items), offs ++ [(data ++ JV.encodeSpec (.arr items)).length])) :=
  select_array_refines v₀ hg jp hok hnp hsmall fuel data offs r h

/-- **mixed mode** = the array when more than one item, the item itself otherwise -/
theorem C08_select_mixed_refines (v₀ : JV) (hg : JV.goodTop v₀ = true) (jp : JsonPath) (hok : okPaths jp = true)
    (hnp : isPredicate jp = false) (hsmall : (JV.encodeSpec v₀).length < 268435456)
    (fuel : Nat) (data : Bytes) (offs : List Nat) (r : Bytes × List Nat)
    (h : select jp .mixed (JV.encodeSpec v₀) data offs fuel = .ok r) :
    ∃ items, Ev (fun f => Spec.evalPaths f v₀ none jp) items ∧
      (items.length < 536870912 →
        r = if items.length > 1
            then (data ++ JV.encodeSpec (.arr items), offs ++ [(data ++ JV.encodeSpec (.arr items)).length])
            else (data ++ items.flatMap JV.encodeSpec, offs ++ ends data.length items)) :=
  select_mixed_refines v₀ hg jp hok hnp hsmall fuel data offs r h

/-- **first / array / mixed modes are exact too** (completeness, error iff the path denotes nothing,
no panic): for every fuel beyond a bound the selector answers exactly the first denoted item / the
array of the denoted items / the mixed rule, or an error on a path that denotes nothing at any fuel -/
theorem C08_select_first_exact (v₀ : JV) (hg : JV.goodTop v₀ = true) (jp : JsonPath) (hs : suppPaths jp = true)
    (hhead : jp.head? ≠ some .current) (hnp : isPredicate jp = false) (data : Bytes) (offs : List Nat) :
    ∃ F, ∀ fuel, F ≤ fuel →
      (∃ items, Ev (fun f => Spec.evalPaths f v₀ none jp) items ∧
        select jp .first (JV.encodeSpec v₀) data offs fuel
          = .ok (data ++ (items.take 1).flatMap JV.encodeSpec, offs ++ ends data.length (items.take 1))) ∨
      (∃ e, select jp .first (JV.encodeSpec v₀) data offs fuel = .err e ∧
        ∀ f, Spec.evalPaths f v₀ none jp = none) :=
  select_first_exact v₀ hg jp hs hhead hnp data offs
theorem C08_select_array_exact (v₀ : JV) (hg : JV.goodTop v₀ = true) (jp : JsonPath) (hs : suppPaths jp = true)
    (hhead : jp.head? ≠ some .current) (hnp : isPredicate jp = false)
    (hsmall : (JV.encodeSpec v₀).length < 268435456) (data : Bytes) (offs : List Nat) :
    ∃ F, ∀ fuel, F ≤ fuel →
      (∃ items r, Ev (fun f => Spec.evalPaths f v₀ none jp) items ∧
        select jp .array (JV.encodeSpec v₀) data offs fuel = .ok r ∧
        (items.length < 536870912 →
          r = (data ++ JV.encodeSpec (.arr items), offs ++ [(data ++ JV.encodeSpec (.arr items)).length]))) ∨
      (∃ e, select jp .array (JV.encodeSpec v₀) data offs fuel = .err e ∧
        ∀ f, Spec.evalPaths f v₀ none jp = none) :=
  select_array_exact v₀ hg jp hs hhead hnp hsmall data offs
theorem C08_select_mixed_exact (v₀ : JV) (hg : JV.goodTop v₀ = true) (jp : JsonPath) (hs : suppPaths jp = true)
    (hhead : jp.head? ≠ some .current) (hnp : isPredicate jp = false)
    (hsmall : (JV.encodeSpec v₀).length < 268435456) (data : Bytes) (offs : List Nat) :
    ∃ F, ∀ fuel, F ≤ fuel →
      (∃ items r, Ev (fun f => Spec.evalPaths f v₀ none jp) items ∧
        select jp .mixed (JV.encodeSpec v₀) data offs fuel = .ok r ∧
        (items.length < 536870912 →
          r = if items.length > 1
              then (data ++ JV.encodeSpec (.arr items), offs ++ [(data ++ JV.encodeSpec (.arr items)).length])
              else (data ++ items.flatMap JV.encodeSpec, offs ++ ends data.length items))) ∨
      (∃ e, select jp .mixed (JV.encodeSpec v₀) data offs fuel = .err e ∧
        ∀ f, Spec.evalPaths f v₀ none jp = none) :=
  select_mixed_exact v₀ hg jp hs hhead hnp hsmall data offs
theorem C08_select_no_panic_any_mode (v₀ : JV) (hg : JV.goodTop v₀ = true) (jp : JsonPath) (hs : suppPaths jp = true)
    (hhead : jp.head? ≠ some .current) (fuel : Nat) (data : Bytes) (offs : List Nat) (s : String) :
    select jp .first (JV.encodeSpec v₀) data offs fuel ≠ .panic s ∧
    select jp .array (JV.encodeSpec v₀) data offs fuel ≠ .panic s ∧
    select jp .mixed (JV.encodeSpec v₀) data offs fuel ≠ .panic s :=
  ⟨select_first_no_panic v₀ hg jp hs hhead fuel data offs s, select_array_no_panic v₀ hg jp hs hhead fuel data offs s,
   select_mixed_no_panic v₀ hg jp hs hhead fuel data offs s⟩

/-- **predicate paths** give one boolean document, in every mode, and push no offset -/
theorem C08_select_predicate_refines (v₀ : JV) (hg : JV.goodTop v₀ = true) (jp : JsonPath) (hok : okPaths jp = true)
    (hp : isPredicate jp = true) (m : Mode) (fuel : Nat) (data : Bytes) (offs : List Nat)
    (r : Bytes × List Nat) (h : select jp m (JV.encodeSpec v₀) data offs fuel = .ok r) :
    ∃ items, Ev (fun f => Spec.evalPaths f v₀ none jp) items ∧
      r = (data ++ JV.encodeSpec (.bool (!items.isEmpty)), offs) :=
  select_predicate_refines v₀ hg jp hok hp m fuel data offs r h

/-- **path_exists** / **path_match** -/
theorem C08_exists_exact (v₀ : JV) (hg : JV.goodTop v₀ = true) (jp : JsonPath) (hs : suppPaths jp = true)
    (hhead : jp.head? ≠ some .current) (hnp : isPredicate jp = false) :
    ∃ F, ∀ fuel, F ≤ fuel →
      (∃ items, Ev (fun f => Spec.evalPaths f v₀ none jp) items ∧
        exists_ jp (JV.encodeSpec v₀) fuel = .ok (!items.isEmpty)) ∨
      (∃ e, exists_ jp (JV.encodeSpec v₀) fuel = .err e ∧ ∀ f, Spec.evalPaths f v₀ none jp = none) :=
  exists_exact v₀ hg jp hs hhead hnp
theorem C08_predicate_match_exact (v₀ : JV) (hg : JV.goodTop v₀ = true) (jp : JsonPath) (hs : suppPaths jp = true)
    (hp : isPredicate jp = true) :
    ∃ F, ∀ fuel, F ≤ fuel →
      (∃ items, Ev (fun f => Spec.evalPaths f v₀ none jp) items ∧
        predicateMatch jp (JV.encodeSpec v₀) fuel = .ok (!items.isEmpty)) ∨
      (∃ e, predicateMatch jp (JV.encodeSpec v₀) fuel = .err e ∧ ∀ f, Spec.evalPaths f v₀ none jp = none) :=
  predicateMatch_exact v₀ hg jp hs hp

/-- the evaluator always terminates: some fuel suffices, and more fuel never changes an answer -/
theorem C08_terminates (v₀ : JV) (hg : JV.goodTop v₀ = true) (jp : JsonPath) (hs : suppPaths jp = true)
    (hhead : jp.head? ≠ some .current) :
    ∃ F, ∀ fuel, F ≤ fuel → findPositions fuel (JV.encodeSpec v₀) none jp ≠ .fuel := by
  obtain ⟨F, hF⟩ := findPositions_exact v₀ hg jp hs hhead
  refine ⟨F, fun fuel hf => ?_⟩
  rcases hF fuel hf with ⟨ps, items, h, _⟩ | ⟨e, h, _⟩ <;> simp [h]

/-! ### The hypotheses above are met by every path the parser accepts, at the fuel the functions use -/

/-- **every accepted path is covered**: whatever `parse_json_path` accepts has the shape the
refinement theorems are stated for (arithmetic included: it is a supported *error*), and never
starts with `@` -/
theorem C08_parser_builds_supported (bs : Bytes) (jp : JsonPath) (h : parseJsonPath bs = .ok jp) :
    suppPaths jp = true ∧ okPaths jp = true ∧ jp.head? ≠ some .current := parseJsonPath_supp bs jp h

/-- the ASTs are well typed: every index an i32, every integer literal a u64 / i64, names and
string literals valid UTF-8, arithmetic never nested under a comparison -/
theorem C08_parser_wellformed (bs : Bytes) (jp : JsonPath) (h : parseJsonPath bs = .ok jp) :
    PShape.parserShape jp = true ∧ typedPaths jp = true ∧ arithAtLeaves jp = true ∧
      suppPaths jp = true ∧ okPaths jp = true ∧ jp.head? ≠ some .current := parseJsonPath_wellformed bs jp h

/-- **the fuel the functions are run with is adequate** (quantitative termination): with
`selFuel` the evaluator model never runs out of fuel, and the denotation evaluated with the same
number has an answer whenever the model has one -/
theorem C08_fuel_adequate (v : JV) (hg : JV.goodTop v = true) (jp : JsonPath)
    (hs : suppPaths jp = true) (hhead : jp.head? ≠ some .current) :
    findPositions (selFuel (JV.encodeSpec v) jp) (JV.encodeSpec v) none jp ≠ .fuel :=
  selFuel_adequate_model v hg jp hs hhead

/-- **end to end**: for every text the parser accepts and every good document, evaluation at
the functions' own fuel either finds positions representing exactly the items the path denotes
(the denotation evaluated at the same fuel), or answers `Err` on a path that denotes nothing at
any fuel -/
theorem C08_end_to_end (bs : Bytes) (jp : JsonPath) (hp : parseJsonPath bs = .ok jp) (v : JV) (hg : JV.goodTop v = true) :
    (∃ ps items, findPositions (selFuel (JV.encodeSpec v) jp) (JV.encodeSpec v) none jp = .ok ps ∧
        Sel.RepL (JV.encodeSpec v) ps items ∧
        Spec.evalPaths (selFuel (JV.encodeSpec v) jp) v none jp = some items) ∨
    (∃ e, findPositions (selFuel (JV.encodeSpec v) jp) (JV.encodeSpec v) none jp = .err e ∧
        ∀ f, Spec.evalPaths f v none jp = none) :=
  let ⟨hs, _, hh⟩ := parseJsonPath_supp bs jp hp
  selFuel_exact v hg jp hs hh

/-- the scalar-root defect repaired in /repo: `$ > 1` on the document `5` is true -/
example : (predicateMatch [.predicate (.binaryOp .gt (.paths [.root]) (.value (.num (.uint 1))))]
    (JV.encodeSpec (.num (.uint 5))) 50) = .ok true := by decide +kernel

/-- the hypotheses are met by what the parser builds for a path with wildcards, index lists with
`last`, nested filters, `&&`/`||`, `exists` and `$`-rooted operands -/
example : (match parseJsonPath "$.a[*][0, last - 1, 2 to last]?(@.b > 1 && exists(@.c) || $.d == \"x\").e".toUTF8.toList with
    | .ok jp => suppPaths jp && okPaths jp && !isPredicate jp && (match jp.head? with | some .current => false | _ => true)
    | _ => false) = true := by decide +kernel

end Jsonb.Props
