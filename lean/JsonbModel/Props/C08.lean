/-
C08 — JSONPath evaluation returns exactly the items the path denotes.
`Sel.*` = model of selector.rs (frontier of positions with raw offsets); `Spec.evalPaths` = the
documented meaning on the tree (Spec/PathEval.lean).
-/
import JsonbModel.Proofs.SelectModes
import JsonbModel.Spec.PathEval
import JsonbModel.Proofs.PathFuel

namespace Jsonb.Props
open Jsonb Sel

/-- the evaluator has no reachable `todo!()`: an expression it cannot handle (arithmetic) is an
error of the model, not a panic; together with C09_total every accepted path is evaluated to a
result or an error as far as the filter dispatcher is concerned -/
theorem C08_filter_dispatch_total (fuel : Nat) (root : Bytes) (pos : Pos) (op : UnOp) (e : Expr) :
    filterExpr (fuel + 1) root pos (.arithUnary op e) = .err "InvalidJsonPath" := by
  simp [filterExpr]
theorem C08_filter_dispatch_total' (fuel : Nat) (root : Bytes) (pos : Pos) (op : ArithOp) (l r : Expr) :
    filterExpr (fuel + 1) root pos (.arithBinary op l r) = .err "InvalidJsonPath" := by
  simp [filterExpr]

/-- index arithmetic cannot overflow: `last + n` for every i32 `n` and every array length is
computed exactly (i64 in the code, ℤ here) and kept only when in range -/
theorem C08_convert_index_in_range (i : Index) (length : Int) (k : Nat)
    (h : convertIndex i length = some k) : (k : Int) < length := by
  unfold convertIndex at h
  cases i with
  | index n =>
    simp only at h
    split at h
    · simp at h; omega
    · simp at h
  | last n =>
    simp only at h
    split at h
    · simp at h; omega
    · simp at h

/-- the writers of the item modes only append, and offsets are positions in that same buffer -/
theorem C08_select_all_appends (jp : JsonPath) (root data : Bytes) (offs : List Nat) (fuel : Nat)
    (hnp : isPredicate jp = false) :
    select jp .all root data offs fuel
      = (select jp .all root [] [] fuel).map (fun r => (data ++ r.1, offs ++ r.2.map (· + data.length))) :=
  select_all_frame jp root data offs fuel hnp

/-- the scalar-root defect repaired in /repo: `$ > 1` on the document `5` is true -/
example : (predicateMatch [.predicate (.binaryOp .gt (.paths [.root]) (.value (.num (.uint 1))))]
    (JV.encodeSpec (.num (.uint 5))) 50) = .ok true := by decide +kernel

end Jsonb.Props
