/-
C10 — Decoding untrusted bytes never panics and never yields ill-formed strings.
`parseJsonb` = model of `parse_jsonb`, `T.fromSlice` = model of `from_slice` (binary first, on
ANY error the text parser).
-/
import JsonbModel.Proofs.DecTotal
import JsonbModel.Proofs.TopLevel
import JsonbModel.Proofs.DecUtf8
import JsonbModel.Proofs.DecConsume
import JsonbModel.Proofs.TextFallback
import JsonbModel.Proofs.JsonParserTotal
import JsonbModel.Proofs.TextFallbackAny

namespace Jsonb.Props
open Jsonb JV

/-- for EVERY byte string the decoder returns a value or an error: no panic site is reachable
(after the `fix:` commits; before them `decObjVals` / `Num.dec` had reachable panics), and the
fuel of the model never runs out -/
theorem C10_total (bs : Bytes) : (∃ v, parseJsonb bs = .ok v) ∨ (∃ e, parseJsonb bs = .err e) :=
  parseJsonb_ok_or_err bs
theorem C10_never_panics (bs : Bytes) (s : String) : parseJsonb bs ≠ .panic s := parseJsonb_ne_panic bs s
theorem C10_from_slice_never_panics (bs : Bytes) (s : String) : T.fromSlice bs ≠ .panic s := by
  unfold T.fromSlice
  have h1 := parseJsonb_ne_panic bs
  have h2 := parseValue_ne_panic bs
  cases h : parseJsonb bs with
  | ok v => simp
  | err e => simp only; exact h2 s
  | panic t => exact absurd h (h1 t)
  | fuel => simp

/-- every string or key inside a value the decoder returns is well-formed UTF-8 -/
theorem C10_utf8 (bs : Bytes) (v : JV) (h : parseJsonb bs = .ok v) : allUtf8 v = true :=
  parseJsonb_allUtf8 bs v h

/-- every proper prefix of a valid encoding is rejected with an error -/
theorem C10_prefix_rejected (v : JV) (hg : goodTop v = true) (p : Bytes)
    (hp : p <+: encodeSpec v) (hne : p ≠ encodeSpec v) : ∃ e, parseJsonb p = .err e :=
  prefix_rejected v hg p hp hne

/-- valid JSON text that does not begin with a space (first byte one of `n t f " - 0-9 [ {`, or
white space other than the blank, or the `\` of escaped white space; shorter than 2^27 bytes)
is never misread as binary: `from_slice` hands it to the text parser -/
theorem C10_text_fallback (t : Bytes) (b0 : UInt8) (tl : Bytes) (ht : t = b0 :: tl)
    (hs : jsonStart b0 = true) (hl : t.length < 134217728) :
    T.fromSlice t = parseValue t := fromSlice_text t b0 tl ht hs hl

/-- valid encodings decode (fuel adequate), also with trailing bytes -/
theorem C10_valid_decodes (v : JV) (h : goodTop v = true) :
    parseJsonb (encodeSpec v) = .ok (norm v) := parseJsonb_encodeSpec v h

/-- witnesses of the repaired defects: D1 (non-string key entry) is an error; D11 the text
`12345678` is no longer a binary scalar -/
example : (parseJsonb [0x40, 0, 0, 1, 0, 0, 0, 0, 0, 0, 0, 0]).isOk = false ∧
    (parseJsonb [0x40, 0, 0, 1, 0, 0, 0, 0, 0, 0, 0, 0]).isPanic = false := by decide
example : (parseJsonb [0x31, 0x32, 0x33, 0x34, 0x35, 0x36, 0x37, 0x38]).isOk = false := by decide

/-- **the text fallback, sharp**: for every first byte that can start a JSON text other than `[` and `\`
no length bound is needed; for `[` and `\` (whose bits read as an OBJECT header) the text reaches the
text parser whenever fewer than 8 * (count spelled by its first four bytes) bytes follow them — in
particular every text shorter than 3 623 878 660 bytes -/
theorem C10_text_fallback_any (t : Bytes) (b0 : UInt8) (tl : Bytes) (ht : t = b0 :: tl)
    (hs : jsonStart b0 = true) (h1 : b0 ≠ 0x5B) (h2 : b0 ≠ 0x5C) : T.fromSlice t = parseValue t :=
  fromSlice_text_any t b0 tl ht hs h1 h2
theorem C10_text_fallback_sharp (b0 b1 b2 b3 : UInt8) (rest : Bytes) (hs : jsonStart b0 = true)
    (hl : b0 = 0x5B ∨ b0 = 0x5C → rest.length < 8 * hdrCount b0 b1 b2 b3) :
    T.fromSlice (b0 :: b1 :: b2 :: b3 :: rest) = parseValue (b0 :: b1 :: b2 :: b3 :: rest) :=
  fromSlice_text_sharp b0 b1 b2 b3 rest hs hl
theorem C10_text_fallback_3GB (t : Bytes) (b0 : UInt8) (tl : Bytes) (ht : t = b0 :: tl)
    (hs : jsonStart b0 = true) (hl : t.length < 3623878660) : T.fromSlice t = parseValue t :=
  fromSlice_text_lt t b0 tl ht hs hl
/-- **known finding D23**: the bound cannot be dropped.  A byte string that starts with `[`, is long
enough and spells entry words in the right places is accepted by the binary decoder (which checks
neither key order nor trailing bytes) — `from_slice` then never asks the text parser -/
theorem C10_finding_long_text_read_as_binary (tl : Bytes) :
    jsonStart 0x5B = true ∧ hdrCount 0x5B 0 0 0 = 452984832 ∧
    (tfText 0x5B 0 0 0 tl).length = 3623878660 + tl.length ∧
    T.fromSlice (tfText 0x5B 0 0 0 tl) = .ok (obj [([], null)]) ∧
    parseValue (tfText 0x5B 0 0 0 tl) = .err "ExpectedSomeValue" ∧
    T.fromSlice (tfText 0x5B 0 0 0 tl) ≠ parseValue (tfText 0x5B 0 0 0 tl) := text_fallback_counterexample tl

end Jsonb.Props
