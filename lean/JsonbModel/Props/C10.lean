/-
C10 — Decoding untrusted bytes never panics and never yields ill-formed strings.
-/
import JsonbModel.Proofs.DecTotal
import JsonbModel.Proofs.TopLevel

namespace Jsonb.Props
open Jsonb JV

/-- for EVERY byte string the decoder returns a value or an error: no panic site is reachable
(after the three `fix:` commits; before them `decObjVals` / `Num.dec` had reachable panics) -/
theorem C10_total (bs : Bytes) (s : String) : parseJsonb bs ≠ .panic s := parseJsonb_ne_panic bs s

/-- and for every fuel (so the claim does not depend on the fuel bound) -/
theorem C10_total_any_fuel (fuel : Nat) (bs : Bytes) (s : String) : decJsonb fuel bs ≠ .panic s :=
  (dec_nopanic fuel).1 bs s

/-- decoding a valid encoding succeeds and never runs out of fuel (`decFuel` is adequate) -/
theorem C10_valid_decodes (v : JV) (h : goodTop v = true) :
    parseJsonb (encodeSpec v) = .ok (norm v) := parseJsonb_encodeSpec v h

/-- the witness of defect D1 (object whose key entry is `null`) is now an error -/
example : (parseJsonb [0x40, 0, 0, 1, 0, 0, 0, 0, 0, 0, 0, 0]).isOk = false ∧
    (parseJsonb [0x40, 0, 0, 1, 0, 0, 0, 0, 0, 0, 0, 0]).isPanic = false := by decide

end Jsonb.Props
