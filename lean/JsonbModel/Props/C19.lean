/-
C19 — Conversion to and from serde_json preserves the document.
`SJ` mirrors serde_json::Value (Number = PosInt | NegInt | Float, insertion-ordered Map);
`Fn.toSerdeJson` = byte walker, `Spec.toSJ` / `Spec.fromSJ` = the tree conversions of from.rs.
-/
import JsonbModel.Functions.Serde
import JsonbModel.Spec.Order
import JsonbModel.Proofs.NumOrd
import JsonbModel.Driver.SerdeOps
import JsonbModel.Proofs.SerdeRefine

namespace Jsonb.Props
open Jsonb JV Spec

/-- numbers convert as the same u64, i64 or f64; non-finite floats are refused by the byte
walker with an error (the tree conversion would panic on them: outside the property) -/
theorem C19_number_kinds (n : Num) :
    Fn.sjOfNum n = (match n with
      | .int i => .ok (if i ≥ 0 then SJ.pos i.toNat else SJ.neg i)
      | .uint u => .ok (SJ.pos u)
      | .float b => if F64.isFinite b then .ok (SJ.float b) else .err "InvalidJson") := by
  cases n <;> simp [Fn.sjOfNum, Fn.sjOfInt]

/-- converting a number to serde and back gives an equal number (a non-negative Int64 comes back
unsigned: same value) -/
theorem C19_number_roundtrip (n : Num) (h : n.WF) (hf : ∀ b, n = .float b → F64.isFinite b = true) :
    ∃ s, toSJ (.num n) = .ok s ∧ valEq (fromSJ s) (.num n) = true := by
  cases n with
  | int i =>
    by_cases hi : i ≥ 0
    · refine ⟨.pos i.toNat, by simp [toSJ, Fn.sjOfInt, hi], ?_⟩
      simp only [fromSJ, valEq, beq_iff_eq]
      exact (Num.cmp_uint_int_eq_iff i.toNat i).mpr (by omega)
    · refine ⟨.neg i, by simp [toSJ, Fn.sjOfInt, hi], ?_⟩
      simp only [fromSJ, valEq, beq_iff_eq]; exact Num.cmp_refl _ h
  | uint u => exact ⟨.pos u, rfl, by simp only [fromSJ, valEq, beq_iff_eq]; exact Num.cmp_refl _ h⟩
  | float b =>
    have := hf b rfl
    exact ⟨.float b, by simp [toSJ, this], by simp only [fromSJ, valEq, beq_iff_eq]; exact Num.cmp_refl _ h⟩

/-! ### whole documents (unbounded: any nesting, any strings and keys, all integers) -/

/-- **byte walker = tree conversion**: on the encoding of every good document with finite
numbers `to_serde_json` returns exactly what `From<Value> for serde_json::Value` returns on the
tree, which succeeds; `Int64(0)` / NaN canonicalisation of the codec does not matter -/
theorem C19_walker_refines (v : JV) (hg : goodTop v = true) (hf : finiteJ v = true) :
    Fn.toSerdeJson (encodeSpec v) = toSJ v ∧ toSJ v = .ok (toSJT v) ∧ toSJ (norm v) = toSJ v :=
  toSerdeJson_refines v hg hf

/-- outside the property (non-finite numbers) the byte walker returns an error where the tree
conversion panics; first failure in the same place -/
theorem C19_walker_total (v : JV) (hg : goodTop v = true) :
    Fn.toSerdeJson (encodeSpec v) = relaxP (toSJ v) ∧
    (finiteJ v = true → Fn.toSerdeJson (encodeSpec v) = .ok (toSJT v)) ∧
    (finiteJ v = false → Fn.toSerdeJson (encodeSpec v) = .err "InvalidJson" ∧ ∃ site, toSJ v = .panic site) :=
  toSerdeJson_total v hg

/-- **same document an independent strict parser reads from the text rendering**: the strict
RFC 8259 reader of C03 accepts `to_string`'s text, and the value it reads converts to the same
serde value, is what the serde value converts back to, and equals the original document -/
theorem C19_same_as_strict_parse (fmt) (v : JV) (hg : goodTop v = true) (hf : finiteJ v = true) (hok : fmtOK fmt v) :
    ∃ text v' s, Fn.toStringDoc fmt false (encodeSpec v) = .ok text ∧ Strict.parse text = some v' ∧
      Fn.toSerdeJson (encodeSpec v) = .ok s ∧ toSJ v' = .ok s ∧ fromSJ s = v' ∧ valEq v' v = true :=
  toSerdeJson_text fmt v hg hf hok

/-- **object-only variant**: members for an object, nothing for other kinds, agrees with the
general one -/
theorem C19_object_variant (v : JV) (hg : goodTop v = true) :
    Fn.toSerdeJsonObject (encodeSpec v) = (match v with
      | .obj _ => (Fn.toSerdeJson (encodeSpec v)).map some | _ => .ok none) ∧
    (∀ kvs, v = .obj kvs → finiteJ v = true →
      Fn.toSerdeJsonObject (encodeSpec v) = .ok (some (.obj (mapTK kvs)))) :=
  toSerdeJsonObject_refines v hg

/-- **mutually inverse**: Value → serde → Value gives an equal value (identical when integers
are stored unsigned); serde → Value → serde gives the same serde value with members in key
order (identical when they already are) -/
theorem C19_value_roundtrip (v : JV) (hg : goodTop v = true) (hf : finiteJ v = true) :
    ∃ s, toSJ v = .ok s ∧ valEq (fromSJ s) v = true := fromSJ_toSJ_inverse_good v hg hf
theorem C19_serde_roundtrip (s : SJ) (h : s.numsOK = true) :
    toSJ (fromSJ s) = .ok s.canon ∧ (s.sortedS = true → toSJ (fromSJ s) = .ok s) ∧
      fromSJ s.canon = fromSJ s ∧ s.canon.canon = s.canon := toSJ_fromSJ_inverse s h

example : (match Fn.toSerdeJson (encodeSpec (obj [([0x61], arr [num (.int 5), num (.int (-5)), num (.float 0x3ff8000000000000)])])) with
    | .ok s => Driver.showSJ s | _ => "") = "O1,K61,A3,P5,M-5,D3ff8000000000000" := by decide +kernel

end Jsonb.Props
