/-
C19 — Conversion to and from serde_json preserves the document.
`SJ` mirrors serde_json::Value (Number = PosInt | NegInt | Float, insertion-ordered Map);
`Fn.toSerdeJson` = byte walker, `Spec.toSJ` / `Spec.fromSJ` = the tree conversions of from.rs.
-/
import JsonbModel.Functions.Serde
import JsonbModel.Spec.Order
import JsonbModel.Proofs.NumOrd
import JsonbModel.Driver.SerdeOps

namespace Jsonb.Props
open Jsonb JV Spec

/-- numbers convert as the same u64, i64 or f64; non-finite floats are refused by the byte
walker with an error (the tree conversion would panic on them: outside the property) -/
theorem C19_number_kinds (n : Num) :
    Fn.sjOfNum n = (match n with
      | .int i => .ok (if i ≥ 0 then SJ.pos i.toNat else SJ.neg i)
      | .uint u => .ok (SJ.pos u)
      | .float b => if F64.isFinite b then .ok (SJ.float b) else .err "InvalidJson") := by
  cases n <;> simp [Fn.sjOfNum, Fn.sjOfInt]

/-- converting a number to serde and back gives an equal number (a non-negative Int64 comes back
unsigned: same value) -/
theorem C19_number_roundtrip (n : Num) (h : n.WF) (hf : ∀ b, n = .float b → F64.isFinite b = true) :
    ∃ s, toSJ (.num n) = .ok s ∧ valEq (fromSJ s) (.num n) = true := by
  cases n with
  | int i =>
    by_cases hi : i ≥ 0
    · refine ⟨.pos i.toNat, by simp [toSJ, Fn.sjOfInt, hi], ?_⟩
      simp only [fromSJ, valEq, beq_iff_eq]
      exact (Num.cmp_uint_int_eq_iff i.toNat i).mpr (by omega)
    · refine ⟨.neg i, by simp [toSJ, Fn.sjOfInt, hi], ?_⟩
      simp only [fromSJ, valEq, beq_iff_eq]; exact Num.cmp_refl _ h
  | uint u => exact ⟨.pos u, rfl, by simp only [fromSJ, valEq, beq_iff_eq]; exact Num.cmp_refl _ h⟩
  | float b =>
    have := hf b rfl
    exact ⟨.float b, by simp [toSJ, this], by simp only [fromSJ, valEq, beq_iff_eq]; exact Num.cmp_refl _ h⟩

example : (match Fn.toSerdeJson (encodeSpec (obj [([0x61], arr [num (.int 5), num (.int (-5)), num (.float 0x3ff8000000000000)])])) with
    | .ok s => Driver.showSJ s | _ => "") = "O1,K61,A3,P5,M-5,D3ff8000000000000" := by decide +kernel

end Jsonb.Props
