/-
C02 — JSON text parser accepts exactly the documented language, with standard meaning.
`parseValue` = model of parser.rs + util.rs as written (same cursor, same order of checks, every
index/slice/unwrap/overflow-checked subtraction an explicit panic outcome guarded as Rust guards it).
-/
import JsonbModel.Proofs.JsonParserTotal
import JsonbModel.Proofs.StrictSubset
import JsonbModel.Proofs.RelaxedBound
import JsonbModel.Proofs.JsonParserFuel
import JsonbModel.Proofs.JsonParserExact
import JsonbModel.Proofs.JsonParserRender

namespace Jsonb.Props
open Jsonb Jsonb.JP

/-- every byte string is answered with a value or an error — never a panic (the two-pass string
scanner with its fixed-width skips, `data[0]` after `\u`, `char::from_u32(..).unwrap()`,
`self.idx - 1 - start_idx - escapes` are all shown unreachable/safe), never out of fuel -/
theorem C02_total (bs : Bytes) (s : String) : parseValue bs ≠ .panic s := parseValue_ne_panic bs s
theorem C02_fuel_adequate (bs : Bytes) : parseValue bs ≠ .fuel := parseValue_fuel bs

/-- integers that fit u64 are kept exact; negative ones that fit i64 are kept exact (`-0` is
`Int64(0)`, `i64::MIN` included) -/
theorem C02_uint_exact (n : Nat) (h : n < 2 ^ 64) :
    parseValue ((Nat.toDigits 10 n).map (fun c => UInt8.ofNat c.toNat)) = .ok (.num (.uint n)) :=
  parse_uint n h
theorem C02_int_exact (m : Nat) (h : m ≤ 2 ^ 63) :
    parseValue (0x2D :: (Nat.toDigits 10 m).map (fun c => UInt8.ofNat c.toNat)) = .ok (.num (.int (-(m : Int)))) :=
  parse_int m h

/-- completeness on compact RFC 8259 renderings (any nesting, any valid UTF-8 strings and keys
with `\"`, `\\` and `\u00XX` escapes, integers over the whole u64/i64 range, duplicate and
unsorted keys): the text is accepted and denotes the expected tree — the last of duplicate keys
wins, non-negative integers come back unsigned -/
theorem C02_complete_compact (v : JV) (hv : rendOk v = true) :
    parseValue (render v) = .ok (expect v) := parseValue_render v hv

example : rendOk (.obj [([0x62], .num (.int (-1))), ([0x61], .arr [.str [0x22, 0x01]]), ([0x62], .null)]) = true := by
  decide

/-- **every RFC 8259 document is accepted and yields the value it denotes** — for every byte
string, not only one renderer's output: whatever the independent strict RFC 8259 reader of the
specification layer accepts (white space anywhere RFC allows it, every escape incl. surrogate
pairs, the full number grammar, nesting, duplicate and unsorted keys) the crate's parser accepts
with the same value: same strings byte for byte, integers exact in u64 / i64, every other number
the correctly rounded double (±inf beyond the range), last duplicate key wins -/
theorem C02_rfc8259_accepted {t : Bytes} {v : JV} (h : Strict.parse t = some v) : parseValue t = .ok v :=
  strict_subset h

/-- every byte string is either accepted or rejected with an error (no panic, no fuel) -/
theorem C02_accepts_or_rejects (t : Bytes) : (∃ v, parseValue t = .ok v) ∨ (∃ e, parseValue t = .err e) :=
  relaxed_rejects_or_accepts t

/-- what the crate rejects, RFC 8259 rejects -/
theorem C02_rejected_is_not_rfc8259 {t : Bytes} {e : String} (h : parseValue t = .err e) : Strict.parse t = none :=
  strict_none_of_err h

/-- **exactly the documented language**: `Relaxed.parse` (Spec/RelaxedJson.lean) is RFC 8259 plus
exactly the listed relaxations — form feed and the escaped white-space texts `\n` `\r` `\t`
`\x0C` between tokens, raw control characters inside strings, `\u{XXXX}` with exactly four digits,
unpaired surrogate escapes kept as literal text, numbers beyond the double range as ±infinity —
written independently of the crate's parser.  The crate accepts a byte string exactly when this
specification does, with the same value; everything else is rejected with an error -/
theorem C02_exactly_the_documented_language (t : Bytes) (v : JV) :
    parseValue t = .ok v ↔ Relaxed.parse t = some v := relaxed_exact t v
theorem C02_everything_else_rejected (t : Bytes) :
    Relaxed.parse t = none ↔ ∃ e, parseValue t = .err e := relaxed_rejects_iff t
/-- the documented language extends RFC 8259 -/
theorem C02_relaxed_extends_rfc8259 {t : Bytes} {v : JV} (h : Strict.parse t = some v) :
    Relaxed.parse t = some v := strict_relaxed h

end Jsonb.Props
