/-
C06 — Editing functions produce exactly the document the edit denotes.
-/
import JsonbModel.Proofs.EditRefine

namespace Jsonb.Props
open Jsonb JV

/-- both builders only append and write the layout function of their entries (no side
conditions): the backbone of every editor -/
theorem C06_build_array_into (buf : Bytes) (es : List BEntry) :
    buildArrayInto buf es = .ok (buf ++ (bspec (.arr es)).2.2) := buildArrayInto_spec buf es
theorem C06_build_object_into (buf : Bytes) (kvs : List (Bytes × BEntry)) :
    buildObjectInto buf kvs = .ok (buf ++ (bspec (.obj kvs)).2.2) := buildObjectInto_spec buf kvs

/-- an array built from the raw entries of good values is the canonical encoding of that array -/
theorem C06_build_from_raw (buf : Bytes) (vs : List JV) (hn : vs.length < 536870912) (hg : goodL vs = true) :
    buildArrayInto buf (vs.map rawItem) = .ok (buf ++ encodeSpec (arr vs)) := buildArrayInto_raw buf vs hn hg

/-- delete_by_index for every i32 index: negative from the end, out of range is a no-op -/
theorem C06_delete_by_index (vs : List JV) (hn : vs.length < 536870912) (hg : goodL vs = true)
    (i : Int) (hi : -2147483648 ≤ i ∧ i ≤ 2147483647) (buf : Bytes) :
    Fn.deleteByIndex (encodeSpec (arr vs)) i buf
      = .ok (buf ++ encodeSpec ((Spec.deleteByIndex (arr vs) i).getD null)) :=
  deleteByIndex_arr vs hn hg i hi buf

/-- concatenating two arrays appends -/
theorem C06_concat_arrays (l r : List JV) (hl : l.length < 536870912) (hr : r.length < 536870912)
    (hlr : l.length + r.length < 536870912) (hgl : goodL l = true) (hgr : goodL r = true) (buf : Bytes) :
    Fn.concat (encodeSpec (arr l)) (encodeSpec (arr r)) buf
      = .ok (buf ++ encodeSpec (Spec.concat (arr l) (arr r))) :=
  concat_arr_arr l r hl hr hlr hgl hgr buf

example : Fn.deleteByIndex (encodeSpec (arr [null, str [0x61], arr []])) (-2) [7]
    = .ok ([7] ++ encodeSpec (arr [null, arr []])) := by decide +kernel

end Jsonb.Props
