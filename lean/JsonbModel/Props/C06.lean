/-
C06 — Editing functions produce exactly the document the edit denotes.
-/
import JsonbModel.Proofs.EditRefine
import JsonbModel.Proofs.KeypathRefine

namespace Jsonb.Props
open Jsonb JV

/-- both builders only append and write the layout function of their entries (no side
conditions): the backbone of every editor -/
theorem C06_build_array_into (buf : Bytes) (es : List BEntry) :
    buildArrayInto buf es = .ok (buf ++ (bspec (.arr es)).2.2) := buildArrayInto_spec buf es
theorem C06_build_object_into (buf : Bytes) (kvs : List (Bytes × BEntry)) :
    buildObjectInto buf kvs = .ok (buf ++ (bspec (.obj kvs)).2.2) := buildObjectInto_spec buf kvs

/-- an array built from the raw entries of good values is the canonical encoding of that array -/
theorem C06_build_from_raw (buf : Bytes) (vs : List JV) (hn : vs.length < 536870912) (hg : goodL vs = true) :
    buildArrayInto buf (vs.map rawItem) = .ok (buf ++ encodeSpec (arr vs)) := buildArrayInto_raw buf vs hn hg

/-- delete_by_index for every i32 index: negative from the end, out of range is a no-op -/
theorem C06_delete_by_index (vs : List JV) (hn : vs.length < 536870912) (hg : goodL vs = true)
    (i : Int) (hi : -2147483648 ≤ i ∧ i ≤ 2147483647) (buf : Bytes) :
    Fn.deleteByIndex (encodeSpec (arr vs)) i buf
      = .ok (buf ++ encodeSpec ((Spec.deleteByIndex (arr vs) i).getD null)) :=
  deleteByIndex_arr vs hn hg i hi buf

/-- concatenating two arrays appends -/
theorem C06_concat_arrays (l r : List JV) (hl : l.length < 536870912) (hr : r.length < 536870912)
    (hlr : l.length + r.length < 536870912) (hgl : goodL l = true) (hgr : goodL r = true) (buf : Bytes) :
    Fn.concat (encodeSpec (arr l)) (encodeSpec (arr r)) buf
      = .ok (buf ++ encodeSpec (Spec.concat (arr l) (arr r))) :=
  concat_arr_arr l r hl hr hlr hgl hgr buf

/-- concatenation in all five cases: objects merge with the right side winning, arrays append,
anything else is wrapped into an array -/
theorem C06_concat (l r : JV) (hl : goodTop l = true) (hr : goodTop r = true)
    (hres : goodTop (Spec.concat l r) = true) (buf : Bytes) :
    Fn.concat (encodeSpec l) (encodeSpec r) buf = .ok (buf ++ encodeSpec (Spec.concat l r)) :=
  concat_refines l r hl hr hres buf

/-- deletion by name (object member / equal string elements of an array); scalars give the
documented error — and the model returns it before touching the buffer -/
theorem C06_delete_by_name (v : JV) (hg : goodTop v = true) (name buf : Bytes) :
    Fn.deleteByName (encodeSpec v) name buf
      = match Spec.deleteByName v name with
        | some r => .ok (buf ++ encodeSpec r)
        | none => .err "InvalidJsonType" := deleteByName_refines v hg name buf

/-- deletion by key path: into and past scalars, negative indices, missing members — any
mismatch leaves the document unchanged; scalar root is the documented error -/
theorem C06_delete_by_keypath (v : JV) (hg : goodTop v = true) (kp : List KeyPath) (hk : kpOK kp) (buf : Bytes) :
    Fn.deleteByKeypath (encodeSpec v) kp buf
      = match Spec.deleteByKeypath v kp with
        | some r => .ok (buf ++ encodeSpec r)
        | none => .err "InvalidJsonType" := deleteByKeypath_refines v hg kp hk buf

/-- positional array insertion for every i32 position, with clamping; non-array targets count
as a one-element list -/
theorem C06_array_insert (v new : JV) (hg : goodTop v = true) (hnew : good new = true)
    (pos : Int) (hp : -2147483648 ≤ pos ∧ pos ≤ 2147483647)
    (hres : goodTop (Spec.arrayInsert v pos new) = true) (buf : Bytes) :
    Fn.arrayInsert (encodeSpec v) pos (encodeSpec new) buf
      = .ok (buf ++ encodeSpec (Spec.arrayInsert v pos new)) :=
  arrayInsert_refines v new hg hnew pos hp hres buf

/-- object insert / update with the two documented errors -/
theorem C06_object_insert (v : JV) (hg : goodTop v = true) (key : Bytes) (new : JV) (update : Bool)
    (hnew : good new = true) (hk : key.length < 268435456) (hu : validUtf8 key = true)
    (hres : ∀ r, Spec.objectInsert v key new update = .ok r → goodTop r = true) (buf : Bytes) :
    Fn.objectInsert (encodeSpec v) key (encodeSpec new) update buf
      = match Spec.objectInsert v key new update with
        | .ok r => .ok (buf ++ encodeSpec r)
        | .error .duplicateKey => .err "ObjectDuplicateKey"
        | .error .invalidObject => .err "InvalidObject" :=
  objectInsert_refines v hg key new update hnew hk hu hres buf

theorem C06_object_delete (v : JV) (hg : goodTop v = true) (keys : List Bytes) (buf : Bytes) :
    Fn.objectFilter false (encodeSpec v) keys buf
      = match Spec.objectDelete v keys with
        | some r => .ok (buf ++ encodeSpec r)
        | none => .err "InvalidObject" := objectDelete_refines v hg keys buf
theorem C06_object_pick (v : JV) (hg : goodTop v = true) (keys : List Bytes) (buf : Bytes) :
    Fn.objectFilter true (encodeSpec v) keys buf
      = match Spec.objectPick v keys with
        | some r => .ok (buf ++ encodeSpec r)
        | none => .err "InvalidObject" := objectPick_refines v hg keys buf

/-- recursive removal of null-valued object members, nulls at every depth -/
theorem C06_strip_nulls (v : JV) (hg : goodTop v = true) (buf : Bytes) :
    Fn.stripNulls (encodeSpec v) buf = .ok (buf ++ encodeSpec (Spec.stripNulls v)) :=
  stripNulls_refines v hg buf

/-- building an array / an object from parts (keys in any order, repeated keys: last wins) -/
theorem C06_build_array (vs : List JV) (hn : vs.length < 536870912) (hg : goodL vs = true) (buf : Bytes) :
    Fn.buildArray (vs.map encodeSpec) buf = .ok (buf ++ encodeSpec (Spec.buildArray vs)) :=
  buildArray_refines vs hn hg buf
theorem C06_build_object (kvs : List (Bytes × JV)) (hg : goodK kvs = true)
    (hn : (mkObj kvs).length < 536870912) (buf : Bytes) :
    Fn.buildObject (kvs.map docMember) buf = .ok (buf ++ encodeSpec (Spec.buildObject kvs)) :=
  buildObject_refines kvs hg hn buf

example : Fn.deleteByIndex (encodeSpec (arr [null, str [0x61], arr []])) (-2) [7]
    = .ok ([7] ++ encodeSpec (arr [null, arr []])) := by decide +kernel

end Jsonb.Props
