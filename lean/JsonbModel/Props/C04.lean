/-
C04 — compare is a total order matching value equality and the documented ranking.
`Spec.cmpJV` = the documented comparison on trees; `Fn.compareDocs` = byte-level model of
`compare` (compare_scalar / compare_container / compare_array / compare_object walkers).
-/
import JsonbModel.Proofs.CmpRefine

namespace Jsonb.Props
open Jsonb JV

/-- **refinement**: on the encodings of ANY two good documents (any nesting, shared prefixes,
different number encodings) the byte walker returns exactly the documented comparison -/
theorem C04_refines (a b : JV) (ha : goodTop a = true) (hb : goodTop b = true) :
    Fn.compareDocs (encodeSpec a) (encodeSpec b) = .ok (Spec.cmpJV a b) :=
  Fn.compareDocs_refines' a b ha hb

/-- reflexive, antisymmetric, transitive (for well-formed numbers; `good` implies it) -/
theorem C04_refl (a : JV) (ha : goodTop a = true) : Spec.cmpJV a a = .eq :=
  Spec.cmpJV_refl a (numsWF_of_goodTop a ha)
theorem C04_antisymm (a b : JV) (ha : goodTop a = true) (hb : goodTop b = true) :
    Spec.cmpJV b a = (Spec.cmpJV a b).swap :=
  Spec.cmpJV_swap a b (numsWF_of_goodTop a ha) (numsWF_of_goodTop b hb)
theorem C04_trans (a b c : JV) (ha : goodTop a = true) (hb : goodTop b = true) (hc : goodTop c = true)
    (h1 : Spec.cmpJV a b ≠ .gt) (h2 : Spec.cmpJV b c ≠ .gt) : Spec.cmpJV a c ≠ .gt :=
  Spec.cmpJV_trans a b c (numsWF_of_goodTop a ha) (numsWF_of_goodTop b hb) (numsWF_of_goodTop c hc) h1 h2
theorem C04_bytes_antisymm (a b : JV) (ha : goodTop a = true) (hb : goodTop b = true) :
    Fn.compareDocs (encodeSpec b) (encodeSpec a)
      = (Fn.compareDocs (encodeSpec a) (encodeSpec b)).map Ordering.swap :=
  Fn.compareDocs_swap a b ha hb

/-- Equal exactly when the two documents are equal as JSON values (numbers by numeric value
across the integer and float encodings) -/
theorem C04_eq_iff_value_eq (a b : JV) : Spec.cmpJV a b = .eq ↔ Spec.valEq a b = true :=
  Spec.cmpJV_eq_iff_valEq a b
theorem C04_bytes_eq_iff (a b : JV) (ha : goodTop a = true) (hb : goodTop b = true) :
    Fn.compareDocs (encodeSpec a) (encodeSpec b) = .ok .eq ↔ Spec.valEq a b = true :=
  Fn.compareDocs_eq_iff a b ha hb

/-- different kinds compare by the documented ranking
Null > Array > Object > String > Number > true > false -/
theorem C04_ranking (a b : JV) (h : Spec.rank a ≠ Spec.rank b) :
    Spec.cmpJV a b = compare (Spec.rank a) (Spec.rank b) := Spec.cmpJV_rank a b h
example : Spec.rank null > Spec.rank (arr []) ∧ Spec.rank (arr []) > Spec.rank (obj []) ∧
    Spec.rank (obj []) > Spec.rank (str []) ∧ Spec.rank (str []) > Spec.rank (num (.uint 0)) ∧
    Spec.rank (num (.uint 0)) > Spec.rank (JV.bool true) ∧ Spec.rank (JV.bool true) > Spec.rank (JV.bool false) := by
  decide

/-- arrays compare element by element and then by length -/
theorem C04_array_prefix (xs ys zs : List JV) (h : numsWFL xs) :
    Spec.cmpL (xs ++ ys) (xs ++ zs) = Spec.cmpL ys zs := Spec.cmpL_prefix xs ys zs h
theorem C04_array_shorter_first (xs : List JV) (y : JV) (ys : List JV) (h : numsWFL xs) :
    Spec.cmpL xs (xs ++ y :: ys) = .lt := Spec.cmpL_prefix_lt xs y ys h

example : Fn.compareDocs (encodeSpec (arr [num (.uint 1), str [0x61]])) (encodeSpec (arr [num (.float 0x3ff0000000000000), str [0x61, 0x62]]))
    = .ok .lt := by decide +kernel

end Jsonb.Props
