/-
C13 — Array set functions implement multiset semantics over identical elements.
`Spec.same a b` = same entry word and payload (same JSON value in the same number encoding).
-/
import JsonbModel.Proofs.SetRefine
import JsonbModel.Proofs.SetRefine2
import JsonbModel.Proofs.SetCounts

namespace Jsonb.Props
open Jsonb JV Spec

/-- distinct keeps the first occurrence of each element, in order -/
theorem C13_distinct_first (x : JV) (xs : List JV) : (distinct (x :: xs) []).head? = some x :=
  distinct_head x xs
theorem C13_distinct_sublist (xs : List JV) : (distinct xs []).Sublist xs := distinct_sublist xs []
theorem C13_distinct_no_repeat (xs seen : List JV) : ∀ x ∈ distinct xs seen, seen.any (same x) = false :=
  distinct_not_seen xs seen
/-- distinct is idempotent -/
theorem C13_distinct_idem (xs : List JV) : distinct (distinct xs []) [] = distinct xs [] := distinct_idem xs

/-- intersection and except are two selections of the first list by one decision sequence and
its complement: they always partition the first list -/
theorem C13_partition (xs ys : List JV) :
    interExcept true xs ys = pick true xs (mask xs ys) ∧
    interExcept false xs ys = pick false xs (mask xs ys) ∧
    (interExcept true xs ys).length + (interExcept false xs ys).length = xs.length :=
  ⟨interExcept_eq_pick true xs ys, interExcept_eq_pick false xs ys, inter_except_partition_length xs ys⟩

/-- overlap is true exactly when the intersection is non-empty -/
theorem C13_overlap_iff (a b : JV) :
    arrayOverlap a b = !(interExcept true (elems a) (elems b)).isEmpty :=
  overlap_iff_inter_nonempty (elems a) (elems b)

/-- byte-level `array_distinct` computes it and writes a canonical array (for any prior buffer) -/
theorem C13_distinct_refines (vs : List JV) (hn : vs.length < 536870912) (hg : goodL vs = true) (buf : Bytes) :
    Fn.arrayDistinct (encodeSpec (arr vs)) buf = .ok (buf ++ encodeSpec (Spec.arrayDistinct (arr vs))) :=
  arrayDistinct_arr vs hn hg buf

/-- byte-level intersection / except / overlap compute the spec functions (count map of the
second operand = multiset of identities) and write canonical arrays, for array, object and
scalar operands alike -/
theorem C13_intersection_refines (a b : JV) (hga : goodTop a = true) (hgb : goodTop b = true)
    (hea : goodL (Spec.elems a) = true) (heb : goodL (Spec.elems b) = true) (buf : Bytes) :
    Fn.arraySetOp true (encodeSpec a) (encodeSpec b) buf = .ok (buf ++ encodeSpec (Spec.arrayIntersection a b)) :=
  arrayIntersection_refines a b hga hgb hea heb buf
theorem C13_except_refines (a b : JV) (hga : goodTop a = true) (hgb : goodTop b = true)
    (hea : goodL (Spec.elems a) = true) (heb : goodL (Spec.elems b) = true) (buf : Bytes) :
    Fn.arraySetOp false (encodeSpec a) (encodeSpec b) buf = .ok (buf ++ encodeSpec (Spec.arrayExcept a b)) :=
  arrayExcept_refines a b hga hgb hea heb buf
theorem C13_overlap_refines (a b : JV) (hga : goodTop a = true) (hgb : goodTop b = true)
    (hea : goodL (Spec.elems a) = true) (heb : goodL (Spec.elems b) = true) :
    Fn.arrayOverlap (encodeSpec a) (encodeSpec b) = .ok (Spec.arrayOverlap a b) :=
  arrayOverlap_refines a b hga hgb hea heb

example : encodeSpec (arrayDistinct (arr [num (.uint 1), num (.int 1), num (.uint 1), arr [null], arr [null]]))
    = encodeSpec (arr [num (.uint 1), num (.int 1), arr [null]]) := by decide +kernel

/-- **the count formula**: every element occurs in the intersection as often as in both lists (the
minimum), in `except` the remaining times; both results keep the order of the first list -/
theorem C13_counts (a b e : JV) :
    cnt e (elems (arrayIntersection a b)) = min (cnt e (elems a)) (cnt e (elems b)) ∧
    cnt e (elems (arrayExcept a b)) = cnt e (elems a) - min (cnt e (elems a)) (cnt e (elems b)) ∧
    (elems (arrayIntersection a b)).Sublist (elems a) ∧
    (elems (arrayExcept a b)).Sublist (elems a) := Spec.C13_counts a b e

end Jsonb.Props
