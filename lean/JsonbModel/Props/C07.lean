/-
C07 — Every public operation preserves canonical form, along arbitrary chains.

"Starting from canonical documents, after any sequence of library operations in which each result
feeds the next, every intermediate result is still canonical JSONB: it decodes, re-encodes to the
identical bytes, every nested length is exact, object keys stay sorted and unique and nothing
trails the value.  At every step it equals the document obtained by applying the same sequence to
the tree, so byte equality keeps coinciding with value identity however the bytes were produced."

Headline theorems only; the development is in
  ChainArgs.lean   (argument resolution: literal / current document / sub-value by key path),
  ChainGood.lean   (missing single-operation cases, goodness preservation of shrinking ops),
  ChainSelect.lean (the two JSONPath operations at the chain's fuel),
  ChainFuel.lean   (the fuel-adequacy conjunct of `PathOK` discharged for filter-free paths),
  ChainStep.lean   (`OpOK`, one step),
  ChainSizes.lean  (`OpSizeOK`: the growing operations need pure size bounds only),
  ChainRun.lean    (`ChainOK`, induction over the chain, what canonical means),
  ChainCheck.lean  (sound Bool checker for the side conditions).

Vocabulary.  `ChainOp α` (Chain.lean): the 20 operations, document arguments of type `α`
(`JV` on the tree side, `Bytes` on the byte side), each argument `Arg.lit w` (a literal document),
`Arg.self` (the current document) or `Arg.sub kp` (the sub-value of the current document at key
path `kp`: "arguments chosen from the current document").  `Spec.chainStep v op : Option JV` is
the operation on the tree, `Fn.chainStep b op : Res (Option Bytes)` the public byte-level function
with an empty output buffer; `none` = the operation is refused (documented `Err`, or nothing
selected): the chain keeps the current document.  `Spec.runChain` / `Fn.runChain` return the list
of ALL intermediate documents.  `goodTop v`: the canonical-form invariant on trees (numbers in
range, valid UTF-8, keys strictly sorted, counts < 2^29, nested payloads < 2^28).
No Mathlib.
-/
import JsonbModel.Proofs.ChainCheck
import JsonbModel.Proofs.ChainFuel
import JsonbModel.Proofs.SelFuel
import JsonbModel.Proofs.ParserShape

namespace Jsonb.Props
open Jsonb JV

/-! ### one step -/

/-- **the JSONPath side condition needs no fuel hypothesis**: for every supported path (in
particular every path the parser accepts, `C07_path_parsed`) the evaluator fuel used in a chain
is adequate -/
theorem C07_path_supp (v : JV) (hg : goodTop v = true) (jp : JsonPath) (hs : suppPaths jp = true)
    (hhead : jp.head? ≠ some .current) : PathOK v jp := pathOK_of_supp v hg jp hs hhead
theorem C07_path_parsed (v : JV) (hg : goodTop v = true) (bs : Bytes) (jp : JsonPath)
    (hp : parseJsonPath bs = .ok jp) : PathOK v jp :=
  let ⟨hs, _, hh⟩ := parseJsonPath_supp bs jp hp
  pathOK_of_supp v hg jp hs hh


/-- **C07, one step.**  On a canonical document `v`, under the side conditions `OpOK v op`, the
byte-level operation applied to `encodeSpec v` (literal arguments encoded) does not fail and
returns exactly the encoding of the document the tree-level operation yields — or `none` exactly
when the tree-level operation yields none (refused: the chain keeps the document). -/
theorem C07_step (v : JV) (hg : goodTop v = true) (op : ChainOp JV) (hok : OpOK v op) :
    Fn.chainStep (encodeSpec v) (op.map encodeSpec) = .ok ((Spec.chainStep v op).map encodeSpec) :=
  chainStep_refines v hg op hok

/-- **C07, one step keeps the invariant.**  The document produced by a step is again canonical.
For the shrinking / extracting operations (`delete_*`, `object_delete/pick`, `strip_nulls`,
`get_by_*`, `object_keys`, `array_distinct/intersection/except`, `get_by_path_first`) this is
PROVED from `goodTop v`; for the growing ones `OpOK` carries the bound (see `C07_sizes`). -/
theorem C07_step_good (v : JV) (hg : goodTop v = true) (op : ChainOp JV) (hok : OpOK v op) (r : JV)
    (h : Spec.chainStep v op = some r) : goodTop r = true :=
  chainStep_good v hg op hok r h

/-- **C07, the side conditions of the growing operations are pure size bounds.**  `OpSizeOK`
replaces every "`goodTop` of the result" in `OpOK` by count / byte-size bounds (member and
element counts < 2^29, embedded documents < 2^28 bytes): sortedness and uniqueness of keys,
UTF-8 validity, number ranges and all nested lengths are preserved by every operation without
assumption. -/
theorem C07_sizes (v : JV) (hg : goodTop v = true) (op : ChainOp JV) (h : OpSizeOK v op) : OpOK v op :=
  opOK_of_sizeOK v hg op h

/-- **C07, JSONPath steps without filters need no fuel hypothesis.**  `PathOK` asks, besides
"supported path not starting with `@`", that the fuel both evaluators run with in a chain
(`Sel.selFuel`) is adequate: the tree evaluator answers at that fuel, or the byte-level evaluator
answers `Err`.  For a path without filter / predicate steps this always holds. -/
theorem C07_path_plain (v : JV) (jp : JsonPath) (hs : suppPaths jp = true)
    (hhead : jp.head? ≠ some .current) (hp : plainPaths jp = true) : PathOK v jp :=
  pathOK_of_plain v jp hs hhead hp

/-- … and in general it suffices that the tree evaluator answers at some fuel `f ≤ selFuel` -/
theorem C07_path_le (v : JV) (jp : JsonPath) (hs : suppPaths jp = true)
    (hhead : jp.head? ≠ some .current) (f : Nat) (hf : f ≤ Spec.chainSelFuel v jp)
    (h : (Spec.evalPaths f v none jp).isSome = true) : PathOK v jp :=
  pathOK_of_le v jp hs hhead f hf h

/-! ### chains -/

/-- `OpSizeOK` of each operation at the tree state reached -/
def ChainSizeOK (v : JV) : List (ChainOp JV) → Prop
  | [] => True
  | op :: ops => OpSizeOK v op ∧ ChainSizeOK ((Spec.chainStep v op).getD v) ops

theorem chainOK_of_sizeOK : ∀ (ops : List (ChainOp JV)) (v : JV), goodTop v = true →
    ChainSizeOK v ops → ChainOK v ops
  | [], _, _, _ => trivial
  | op :: ops, v, hg, h =>
    have hok := opOK_of_sizeOK v hg op h.1
    ⟨hok, chainOK_of_sizeOK ops _ (chainStep_getD_good v hg op hok) h.2⟩

/-- **C07, chain theorem.**  For every canonical start document `v` and every finite sequence of
operations `ops` (arguments literal or chosen from the current document) satisfying the side
conditions at each state reached (`ChainOK`): the byte-level chain, each result feeding the next
operation, succeeds, and its list of intermediate byte strings is exactly the list of encodings
of the intermediate documents of the same sequence applied to the tree. -/
theorem C07_chain (v : JV) (hg : goodTop v = true) (ops : List (ChainOp JV)) (hok : ChainOK v ops) :
    Fn.runChain (encodeSpec v) (ops.map (ChainOp.map encodeSpec))
      = .ok ((Spec.runChain v ops).map encodeSpec) :=
  runChain_refines ops v hg hok

/-- **C07, every intermediate tree is canonical.** -/
theorem C07_chain_good (v : JV) (hg : goodTop v = true) (ops : List (ChainOp JV)) (hok : ChainOK v ops) :
    ∀ r ∈ Spec.runChain v ops, goodTop r = true :=
  runChain_good ops v hg hok

/-- the same two statements from pure size bounds along the chain -/
theorem C07_chain_of_sizes (v : JV) (hg : goodTop v = true) (ops : List (ChainOp JV))
    (h : ChainSizeOK v ops) :
    Fn.runChain (encodeSpec v) (ops.map (ChainOp.map encodeSpec))
      = .ok ((Spec.runChain v ops).map encodeSpec) ∧
    ∀ r ∈ Spec.runChain v ops, goodTop r = true :=
  have hok := chainOK_of_sizeOK ops v hg h
  ⟨runChain_refines ops v hg hok, runChain_good ops v hg hok⟩

/-- **C07, every intermediate byte string is canonical JSONB.**  Let `b` be the `i`-th
intermediate result of the byte-level chain.  Then the tree-level chain has an `i`-th intermediate
document `r`, `r` is well-formed (`goodTop`: keys strictly sorted hence unique, lengths inside
their fields), `b = encodeSpec r` (the README layout: every nested length exact), and
* `b` decodes: `parseJsonb b = .ok (norm r)` (`norm` = the decoder's number normal form);
* nothing trails the value: the decoder stops exactly at the end of `b`;
* the decoded value is well-formed;
* it re-encodes to the identical bytes, by the layout function and by the model `toVec` of the
  real serializer. -/
theorem C07_intermediate_canonical (v : JV) (hg : goodTop v = true) (ops : List (ChainOp JV))
    (hok : ChainOK v ops) (bs : List Bytes)
    (h : Fn.runChain (encodeSpec v) (ops.map (ChainOp.map encodeSpec)) = .ok bs)
    (i : Nat) (b : Bytes) (hb : bs[i]? = some b) :
    ∃ r, (Spec.runChain v ops)[i]? = some r ∧ goodTop r = true ∧ b = encodeSpec r ∧
      parseJsonb b = .ok (norm r) ∧
      decJsonb (decFuel b) b = .ok (norm r, []) ∧
      goodTop (norm r) = true ∧
      encodeSpec (norm r) = b ∧
      toVec (norm r) = .ok b := by
  obtain ⟨r, hr, hc⟩ := runChain_nth v hg ops hok bs h i b hb
  exact ⟨r, hr, hc.1, hc.2, hc.facts⟩

/-- one intermediate document per operation, on both sides -/
theorem C07_chain_length (v : JV) (ops : List (ChainOp JV)) : (Spec.runChain v ops).length = ops.length :=
  runChain_length v ops

/-- **C07, byte equality = value identity** on canonical documents (value identity up to `norm`:
`Int64(0)` ≡ `UInt64(0)`, all NaNs identified — the only two things the encoding does not keep) -/
theorem C07_byte_eq_iff (r₁ r₂ : JV) (h₁ : goodTop r₁ = true) (h₂ : goodTop r₂ = true) :
    encodeSpec r₁ = encodeSpec r₂ ↔ norm r₁ = norm r₂ :=
  encodeSpec_eq_iff r₁ r₂ h₁ h₂

/-- **C07, … however the bytes were produced.**  Take ANY two chains (any canonical start
documents, any operation sequences satisfying the side conditions) and any intermediate result
`b₁` of the first and `b₂` of the second: the byte strings are equal exactly when the
corresponding intermediate trees are the same value. -/
theorem C07_chains_byte_eq_iff
    (v₁ : JV) (hg₁ : goodTop v₁ = true) (ops₁ : List (ChainOp JV)) (hok₁ : ChainOK v₁ ops₁)
    (v₂ : JV) (hg₂ : goodTop v₂ = true) (ops₂ : List (ChainOp JV)) (hok₂ : ChainOK v₂ ops₂)
    (bs₁ bs₂ : List Bytes)
    (h₁ : Fn.runChain (encodeSpec v₁) (ops₁.map (ChainOp.map encodeSpec)) = .ok bs₁)
    (h₂ : Fn.runChain (encodeSpec v₂) (ops₂.map (ChainOp.map encodeSpec)) = .ok bs₂)
    (i j : Nat) (b₁ b₂ : Bytes) (hb₁ : bs₁[i]? = some b₁) (hb₂ : bs₂[j]? = some b₂) :
    ∃ r₁ r₂, (Spec.runChain v₁ ops₁)[i]? = some r₁ ∧ (Spec.runChain v₂ ops₂)[j]? = some r₂ ∧
      (b₁ = b₂ ↔ norm r₁ = norm r₂) :=
  chains_byte_eq_iff v₁ hg₁ ops₁ hok₁ v₂ hg₂ ops₂ hok₂ bs₁ bs₂ h₁ h₂ i j b₁ b₂ hb₁ hb₂

/-- the side conditions can be checked by evaluation: `chainOKb` is a sound Bool checker -/
theorem C07_checker (v : JV) (ops : List (ChainOp JV)) (h : chainOKb v ops = true) : ChainOK v ops :=
  chainOK_of_b ops v h

/-! ### non-vacuity

`{"a":[1,2,2,null],"b":{"c":null,"d":"x"},"k":"v"}` and a chain of 19 operations:
* growing: `object_insert` with a sub-value of the current document as argument, `concat` with
  itself and with a literal, `array_insert` of the element at index 0, `build_array`,
  `build_object`, `get_by_path_array` (an index list with repetitions; a filter);
* deleting: `delete_by_keypath` two levels deep, `strip_nulls`, `object_delete`, `delete_by_index`;
* extracting: `get_by_name`, `get_by_keypath`, `get_by_path_first` (an index step; a predicate path);
* set functions: `array_intersection` with a literal, `array_distinct`;
* one refused operation (`object_pick` on an array: the chain keeps the document). -/

def chainDoc : JV :=
  obj [([0x61], arr [num (.uint 1), num (.uint 2), num (.uint 2), null]),
       ([0x62], obj [([0x63], null), ([0x64], str [0x78])]),
       ([0x6B], str [0x76])]

def chainOps : List (ChainOp JV) :=
  [ .objIns [0x7A] (.sub [.name [0x61]]) false,          -- {"a":..,"b":..,"k":..,"z":[1,2,2,null]}
    .delKp [.name [0x62], .name [0x64]],                 -- "b":{"c":null}
    .strip,                                              -- "b":{}
    .objDel [[0x6B]],                                    -- without "k"
    .getName [0x61] false,                               -- [1,2,2,null]
    .objPick [[0x61]],                                   -- refused (not an object): unchanged
    .inter (.lit (arr [num (.uint 2), null, num (.uint 2), num (.uint 7)])),   -- [2,2,null]
    .concat .self false,                                 -- [2,2,null,2,2,null]
    .distinct,                                           -- [2,null]
    .arrIns (-1) (.sub [.index 0]),                      -- [2,2,null]
    .wrapArr [.self, .sub [.index (-1)], .lit (str [0x71])],   -- [[2,2,null],null,"q"]
    .selFirst [.root, .arrayIndices [.index (.index 0)]],      -- [2,2,null]
    .selArr [.root, .arrayIndices [.index (.last 0), .index (.index 0), .index (.index 0)]],  -- [null,2,2]
    .delIdx 0,                                           -- [2,2]
    .wrapObj [([0x79], .self), ([0x78], .sub [.index 0])],     -- {"x":2,"y":[2,2]}
    .getKp [.name [0x79], .index (-1)],                  -- 2
    .concat (.lit (obj [([0x6B], null)])) true,          -- [{"k":null},2]
    .selArr [.root, .bracketWildcard,                    -- $[*]?(@ == 2)  →  [2]
      .filterExpr (.binaryOp .eq (.paths [.current]) (.value (.num (.uint 2))))],
    .selFirst [.predicate (.binaryOp .eq                 -- $[0] == 2  →  true
      (.paths [.root, .arrayIndices [.index (.index 0)]]) (.value (.num (.uint 2))))] ]

/-- the side conditions hold along the whole chain (kernel-evaluated) -/
theorem chainExample_ok : ChainOK chainDoc chainOps :=
  C07_checker chainDoc chainOps (by decide +kernel)

example : goodTop chainDoc = true := by decide +kernel

/-- hence the byte-level chain produces the encodings of the tree-level chain … -/
example : Fn.runChain (encodeSpec chainDoc) (chainOps.map (ChainOp.map encodeSpec))
    = .ok ((Spec.runChain chainDoc chainOps).map encodeSpec) :=
  C07_chain chainDoc (by decide +kernel) chainOps chainExample_ok

/-- … which the kernel confirms by running both sides; the final document is `true` -/
example : Fn.runChain (encodeSpec chainDoc) (chainOps.map (ChainOp.map encodeSpec))
    = .ok ((Spec.runChain chainDoc chainOps).map encodeSpec) := by decide +kernel

example : ((Spec.runChain chainDoc chainOps).map encodeSpec).getLast?
    = some (encodeSpec (bool true)) := by decide +kernel
example : ((Spec.runChain chainDoc chainOps).map encodeSpec)[16]?
    = some (encodeSpec (arr [obj [([0x6B], null)], num (.uint 2)])) := by decide +kernel
example : ((Spec.runChain chainDoc chainOps).map encodeSpec)[17]?
    = some (encodeSpec (arr [num (.uint 2)])) := by decide +kernel

/-- the refused step keeps the document: results 5 and 6 (0-based 4 and 5) are the same bytes -/
example : ((Spec.runChain chainDoc chainOps).map encodeSpec)[4]?
    = ((Spec.runChain chainDoc chainOps).map encodeSpec)[5]? := by decide +kernel

/-- the remaining four operations, so that all 20 occur in a checked chain: `object_keys`,
`delete_by_name` (on an array: equal strings), `array_except`, `get_by_index` (the second one out
of range: refused) -/
def chainOps2 : List (ChainOp JV) :=
  [ .keys,                                               -- ["a","b","k"]
    .delName [0x62],                                     -- ["a","k"]
    .except (.lit (arr [str [0x6B], str [0x6B]])),       -- ["a"]
    .getIdx 0,                                           -- "a"
    .getIdx 5 ]                                          -- refused: still "a"

theorem chainExample2_ok : ChainOK chainDoc chainOps2 :=
  C07_checker chainDoc chainOps2 (by decide +kernel)

example : Fn.runChain (encodeSpec chainDoc) (chainOps2.map (ChainOp.map encodeSpec))
    = .ok ((Spec.runChain chainDoc chainOps2).map encodeSpec) :=
  C07_chain chainDoc (by decide +kernel) chainOps2 chainExample2_ok

example : (Spec.runChain chainDoc chainOps2).map encodeSpec
    = [arr [str [0x61], str [0x62], str [0x6B]], arr [str [0x61], str [0x6B]], arr [str [0x61]],
       str [0x61], str [0x61]].map encodeSpec := by decide +kernel

/-- the pure-size side conditions are not vacuous either: a growing step from size bounds -/
example : OpSizeOK chainDoc (.objIns [0x7A] (.sub [.name [0x61]]) false) := by
  refine ⟨by decide, by decide +kernel, fun h => by simp at h, fun kvs w hv hw => ?_⟩
  simp only [chainDoc, obj.injEq] at hv
  subst hv
  have hl := insertKV_length_le [0x7A] w
    [([0x61], arr [num (.uint 1), num (.uint 2), num (.uint 2), null]),
     ([0x62], obj [([0x63], null), ([0x64], str [0x78])]), ([0x6B], str [0x76])]
  simp only [List.length_cons, List.length_nil] at hl
  omega

end Jsonb.Props
