/-
C11 — JSON text and JSONB inputs give the same answer.
`T.f` = the whole public function of functions.rs (sniffing with `is_jsonb` + both branches).
`TextOf t v`: `t` is sniffed as text, `parse_value t = Ok v`, `v` inside the field widths and
with fewer than 2^24 top-level members.  Every theorem says: calling the function on the text
is calling it on `encodeSpec v` (= `parse_value(t).to_vec()` by C01_layout).
The 2^24 bound is real: see `C11_sniff_false_huge` (known finding D21).
-/
import JsonbModel.Proofs.TextEquiv4
import JsonbModel.Proofs.TextEquiv5

namespace Jsonb.Props
open Jsonb JV

/-- the reference encoding the property talks about is what `to_vec` produces -/
theorem C11_text_to_jsonb {t : Bytes} {v : JV} (h : TextOf t v) : T.textToJsonb t = .ok (encodeSpec v) :=
  textToJsonb_eq h

/-- a valid encoding with fewer than 2^24 top-level members is always sniffed as JSONB -/
theorem C11_sniff_true (v : JV) (h : topCount v < 16777216) : isJsonb (encodeSpec v) = true :=
  isJsonb_encodeSpec v h

/-- **known finding D21**: the sniffing compares the whole first byte, so a valid array with
2^24 ≤ n < 2^25 elements (first byte 0x81) is taken for text by every function -/
theorem C11_sniff_false_huge (vs : List JV) (h1 : 16777216 ≤ vs.length) (h2 : vs.length < 33554432) :
    isJsonb (encodeSpec (arr vs)) = false := by
  simp only [encodeSpec, entry]
  rw [u32be_head]
  have : (C.ARRAY_CONTAINER_TAG + vs.length) / 16777216 % 256 = 129 := by
    simp only [C.ARRAY_CONTAINER_TAG]; omega
  simp [isJsonb, this, C.ARRAY_PREFIX, C.OBJECT_PREFIX, C.SCALAR_PREFIX]

/-! ### functions of the shape "parse, encode, run the JSONB function" -/
theorem C11_via1 {α} (f : Bytes → Res α) {t : Bytes} {v : JV} (h : TextOf t v) :
    T.viaJsonb1 f t = T.viaJsonb1 f (encodeSpec v) := viaJsonb1_text f h
theorem C11_via2_text_text {α} (f : Bytes → Bytes → Res α) {t1 t2 : Bytes} {v1 v2 : JV}
    (h1 : TextOf t1 v1) (h2 : TextOf t2 v2) :
    T.viaJsonb2 f t1 t2 = T.viaJsonb2 f (encodeSpec v1) (encodeSpec v2) := viaJsonb2_text_text f h1 h2
theorem C11_via2_text_bin {α} (f : Bytes → Bytes → Res α) {t1 : Bytes} {v1 : JV} (b2 : Bytes)
    (h1 : TextOf t1 v1) (hb : isJsonb b2 = true) :
    T.viaJsonb2 f t1 b2 = T.viaJsonb2 f (encodeSpec v1) b2 := viaJsonb2_text_bin f b2 h1 hb
theorem C11_via2_bin_text {α} (f : Bytes → Bytes → Res α) (b1 : Bytes) {t2 : Bytes} {v2 : JV}
    (hb : isJsonb b1 = true) (h2 : TextOf t2 v2) :
    T.viaJsonb2 f b1 t2 = T.viaJsonb2 f b1 (encodeSpec v2) := viaJsonb2_bin_text f b1 hb h2

/-- instances: the functions of functions.rs that have this shape -/
theorem C11_array_insert {t n : Bytes} {v w : JV} (h : TextOf t v) (hn : TextOf n w) (pos : Int) (buf : Bytes) :
    T.arrayInsert t pos n buf = T.arrayInsert (encodeSpec v) pos (encodeSpec w) buf := C11_via2_text_text _ h hn
theorem C11_object_insert {t n : Bytes} {v w : JV} (h : TextOf t v) (hn : TextOf n w) (key : Bytes) (u : Bool) (buf : Bytes) :
    T.objectInsert t key n u buf = T.objectInsert (encodeSpec v) key (encodeSpec w) u buf := C11_via2_text_text _ h hn
theorem C11_array_distinct {t : Bytes} {v : JV} (h : TextOf t v) (buf : Bytes) :
    T.arrayDistinct t buf = T.arrayDistinct (encodeSpec v) buf := C11_via1 _ h
theorem C11_array_intersection {a b : Bytes} {v w : JV} (ha : TextOf a v) (hb : TextOf b w) (buf : Bytes) :
    T.arrayIntersection a b buf = T.arrayIntersection (encodeSpec v) (encodeSpec w) buf := C11_via2_text_text _ ha hb
theorem C11_array_except {a b : Bytes} {v w : JV} (ha : TextOf a v) (hb : TextOf b w) (buf : Bytes) :
    T.arrayExcept a b buf = T.arrayExcept (encodeSpec v) (encodeSpec w) buf := C11_via2_text_text _ ha hb
theorem C11_array_overlap {a b : Bytes} {v w : JV} (ha : TextOf a v) (hb : TextOf b w) :
    T.arrayOverlap a b = T.arrayOverlap (encodeSpec v) (encodeSpec w) := C11_via2_text_text _ ha hb
theorem C11_object_delete {t : Bytes} {v : JV} (h : TextOf t v) (keys : List Bytes) (buf : Bytes) :
    T.objectDelete t keys buf = T.objectDelete (encodeSpec v) keys buf := C11_via1 _ h
theorem C11_object_pick {t : Bytes} {v : JV} (h : TextOf t v) (keys : List Bytes) (buf : Bytes) :
    T.objectPick t keys buf = T.objectPick (encodeSpec v) keys buf := C11_via1 _ h
theorem C11_to_serde_json {t : Bytes} {v : JV} (h : TextOf t v) :
    T.toSerdeJson t = T.toSerdeJson (encodeSpec v) := C11_via1 _ h

/-! ### functions with their own tree implementation of the text branch -/
section
variable {t : Bytes} {v : JV} (h : TextOf t v)
include h
theorem C11_array_length : T.arrayLength t = T.arrayLength (encodeSpec v) := arrayLength_text h
theorem C11_type_of : T.typeOf t = T.typeOf (encodeSpec v) := typeOf_text h
theorem C11_get_by_index (i : Nat) : T.getByIndex t i = T.getByIndex (encodeSpec v) i := getByIndex_text h i
theorem C11_get_by_name (name : Bytes) (ic : Bool) :
    T.getByName t name ic = T.getByName (encodeSpec v) name ic := getByName_text h name ic
theorem C11_get_by_keypath (path : List KeyPath) :
    T.getByKeypath t path = T.getByKeypath (encodeSpec v) path := getByKeypath_text h path
theorem C11_object_keys : T.objectKeys t = T.objectKeys (encodeSpec v) := objectKeys_text h
theorem C11_as_null : T.asNull t = T.asNull (encodeSpec v) := asNull_text h
theorem C11_as_bool : T.asBool t = T.asBool (encodeSpec v) := asBool_text h
/-- same number; `Int64(0)` is handed out as parsed by the text branch and as the stored shared
zero by the JSONB branch (`Number` equality holds between them: C04) -/
theorem C11_as_number : (T.asNumber t).map (Option.map Num.norm) = T.asNumber (encodeSpec v) := asNumber_text h
theorem C11_as_str : T.asStr t = T.asStr (encodeSpec v) := asStr_text h
theorem C11_exists_all_keys (keys : List Bytes) :
    T.existsAllKeys t keys = T.existsAllKeys (encodeSpec v) keys := existsAllKeys_text h keys
theorem C11_strip_nulls (buf : Bytes) : T.stripNulls t buf = T.stripNulls (encodeSpec v) buf := stripNulls_text h buf
theorem C11_delete_by_name (name buf : Bytes) :
    T.deleteByName t name buf = T.deleteByName (encodeSpec v) name buf := deleteByName_text h name buf
theorem C11_traverse_check_string (p : Bytes → Bool) :
    T.traverseCheckString t p = T.traverseCheckString (encodeSpec v) p := traverseCheckString_text h p
theorem C11_convert_to_comparable (buf : Bytes) :
    T.convertToComparable t buf = T.convertToComparable (encodeSpec v) buf := convertToComparable_text h buf
theorem C11_path_exists (jp : JsonPath) : T.pathExists t jp = T.pathExists (encodeSpec v) jp := pathExists_text h jp
theorem C11_get_by_path (mode : Sel.Mode) (jp : JsonPath) (data : Bytes) :
    T.getByPathMode mode t jp data = T.getByPathMode mode (encodeSpec v) jp data := getByPathMode_text h mode jp data
theorem C11_compare_text_bin (b : Bytes) (hb : isJsonb b = true) :
    T.compare t b = T.compare (encodeSpec v) b := compare_text_bin h b hb
theorem C11_compare_bin_text (b : Bytes) (hb : isJsonb b = true) :
    T.compare b t = T.compare b (encodeSpec v) := compare_bin_text h b hb
theorem C11_lazy_value : T.lazyToVec t = .ok (encodeSpec v) := lazy_text h
end

theorem C11_compare_text_text {t1 t2 : Bytes} {v1 v2 : JV} (h1 : TextOf t1 v1) (h2 : TextOf t2 v2) :
    T.compare t1 t2 = T.compare (encodeSpec v1) (encodeSpec v2) := compare_text_text h1 h2

/-! ### `contains`, `concat` (text case: BOTH arguments go through `from_slice`), `delete_by_index`

`TextOfFS` adds what C10_text_fallback needs: first byte a JSON start byte (not a space), text
shorter than 2^27 bytes. -/
theorem C11_contains_text_text {t1 t2 : Bytes} {v1 v2 : JV} (h1 : TextOfFS t1 v1) (h2 : TextOfFS t2 v2) :
    T.contains t1 t2 = T.contains (encodeSpec v1) (encodeSpec v2) := contains_text_text h1 h2
theorem C11_contains_text_bin {t1 : Bytes} {v1 v2 : JV} (h1 : TextOfFS t1 v1) (hg : goodTop v2 = true)
    (hs : topCount v2 < 16777216) :
    T.contains t1 (encodeSpec v2) = T.contains (encodeSpec v1) (encodeSpec v2) := contains_text_bin h1 hg hs
theorem C11_contains_bin_text {t2 : Bytes} {v1 v2 : JV} (hg : goodTop v1 = true) (hs : topCount v1 < 16777216)
    (h2 : TextOfFS t2 v2) :
    T.contains (encodeSpec v1) t2 = T.contains (encodeSpec v1) (encodeSpec v2) := contains_bin_text hg hs h2
theorem C11_concat_text_text {t1 t2 : Bytes} {v1 v2 : JV} (h1 : TextOfFS t1 v1) (h2 : TextOfFS t2 v2)
    (hres : goodTop (Spec.concat v1 v2) = true) (buf : Bytes) :
    T.concat t1 t2 buf = T.concat (encodeSpec v1) (encodeSpec v2) buf := concat_text_text h1 h2 hres buf
theorem C11_delete_by_index {t : Bytes} {vs : List JV} (h : TextOf t (arr vs))
    (i : Int) (hi : -2147483648 ≤ i ∧ i ≤ 2147483647) (buf : Bytes) :
    T.deleteByIndex t i buf = T.deleteByIndex (encodeSpec (arr vs)) i buf := deleteByIndex_text h i hi buf

/-- `concat` with one text and one binary argument (the binary side is decoded by `from_slice`) -/
theorem C11_concat_text_bin {t1 : Bytes} {v1 v2 : JV} (h1 : TextOfFS t1 v1) (hg : goodTop v2 = true)
    (hs : topCount v2 < 16777216) (hres : goodTop (Spec.concat v1 v2) = true) (buf : Bytes) :
    T.concat t1 (encodeSpec v2) buf = T.concat (encodeSpec v1) (encodeSpec v2) buf :=
  concat_text_bin h1 hg hs hres buf
theorem C11_concat_bin_text {t2 : Bytes} {v1 v2 : JV} (hg : goodTop v1 = true) (hs : topCount v1 < 16777216)
    (h2 : TextOfFS t2 v2) (hres : goodTop (Spec.concat v1 v2) = true) (buf : Bytes) :
    T.concat (encodeSpec v1) t2 buf = T.concat (encodeSpec v1) (encodeSpec v2) buf :=
  concat_bin_text hg hs h2 hres buf
/-- `delete_by_index` on any text (non-arrays: the same documented error on both sides) -/
theorem C11_delete_by_index_any {t : Bytes} {v : JV} (h : TextOf t v)
    (i : Int) (hi : -2147483648 ≤ i ∧ i ≤ 2147483647) (buf : Bytes) :
    T.deleteByIndex t i buf = T.deleteByIndex (encodeSpec v) i buf := deleteByIndex_text_any h i hi buf

/-! ### the remaining public functions (Functions/Text2.lean: every sniffing site of functions.rs is modelled) -/
section
variable {t : Bytes} {v : JV} (h : TextOf t v)
include h
theorem C11_path_match (jp : JsonPath) : T.pathMatch t jp = T.pathMatch (encodeSpec v) jp := pathMatch_text h jp
theorem C11_exists_any_keys (keys : List Bytes) :
    T.existsAnyKeys t keys = T.existsAnyKeys (encodeSpec v) keys := existsAnyKeys_text h keys
theorem C11_object_each : T.objectEach t = T.objectEach (encodeSpec v) := objectEach_text h
theorem C11_array_values : T.arrayValues t = T.arrayValues (encodeSpec v) := arrayValues_text h
theorem C11_is_array : T.isArray t = T.isArray (encodeSpec v) := isArray_text h
theorem C11_is_object : T.isObject t = T.isObject (encodeSpec v) := isObject_text h
theorem C11_is_null : T.isNull t = T.isNull (encodeSpec v) := isNull_text h
theorem C11_is_boolean : T.isBoolean t = T.isBoolean (encodeSpec v) := isBoolean_text h
theorem C11_is_number : T.isNumber t = T.isNumber (encodeSpec v) := isNumber_text h
theorem C11_is_string : T.isString t = T.isString (encodeSpec v) := isString_text h
theorem C11_as_i64 : T.asI64 t = T.asI64 (encodeSpec v) := asI64_text h
theorem C11_as_u64 : T.asU64 t = T.asU64 (encodeSpec v) := asU64_text h
theorem C11_is_i64 : T.isI64 t = T.isI64 (encodeSpec v) := isI64_text h
theorem C11_is_u64 : T.isU64 t = T.isU64 (encodeSpec v) := isU64_text h
theorem C11_is_f64 : T.isF64 t = T.isF64 (encodeSpec v) := isF64_text h
theorem C11_to_bool : T.toBool t = T.toBool (encodeSpec v) := toBool_text h
theorem C11_to_i64 : T.toI64 t = T.toI64 (encodeSpec v) := toI64_text h
theorem C11_to_u64 : T.toU64 t = T.toU64 (encodeSpec v) := toU64_text h
/-- the same f64 (a NaN, which no text can denote, would come back canonical) -/
theorem C11_as_f64 : (T.asF64 t).map (Option.map F64.canon) = T.asF64 (encodeSpec v) := asF64_text h
theorem C11_to_serde_json_object : T.toSerdeJsonObject t = T.toSerdeJsonObject (encodeSpec v) :=
  toSerdeJsonObject_text h
theorem C11_delete_by_keypath (kp : List KeyPath) (hk : kpOK kp) (buf : Bytes) :
    T.deleteByKeypath t kp buf = T.deleteByKeypath (encodeSpec v) kp buf := deleteByKeypath_text h kp hk buf
/-- `to_string` / `to_pretty_string` return a text argument as it is; the rendering of its
encoding is another text denoting the same document (the property's "text renderings that
denote the same document") -/
theorem C11_to_string (fmt : Nat → Bytes) (pretty : Bool) (hu : validUtf8 t = true) (hok : fmtOK fmt v) :
    ∃ text v', T.toStringFn fmt pretty t = .ok t ∧ parseValue t = .ok v ∧
      T.toStringFn fmt pretty (encodeSpec v) = .ok text ∧ Strict.parse text = some v' ∧
      Spec.valEq v' v = true ∧ (Driver.allUnsigned v = true → v' = v) := toString_text h fmt pretty hu hok
end

/-- `RawJsonb`-style binary input is kept as it is by `parse_lazy_value` -/
theorem C11_lazy_value_bin (v : JV) (hs : topCount v < 16777216) :
    T.lazyToVec (encodeSpec v) = .ok (encodeSpec v) := lazy_bin v hs

/-- the hypotheses are satisfiable: `{"a":[1,null,"x"]}` -/
example : ∃ v, TextOf "{\"a\":[1,null,\"x\"]}".toUTF8.toList v := by
  have hk : (match parseValue "{\"a\":[1,null,\"x\"]}".toUTF8.toList with
      | .ok v => goodTop v && decide (topCount v < 16777216)
      | _ => false) = true := by decide +kernel
  cases hp : parseValue "{\"a\":[1,null,\"x\"]}".toUTF8.toList with
  | ok v =>
    rw [hp] at hk
    simp only [Bool.and_eq_true, decide_eq_true_eq] at hk
    exact ⟨v, ⟨by decide +kernel, hp, hk.1, hk.2⟩⟩
  | err e => rw [hp] at hk; simp at hk
  | panic s => rw [hp] at hk; simp at hk
  | fuel => rw [hp] at hk; simp at hk

end Jsonb.Props
