/-
C09 — JSONPath syntax: every documented form parses as intended; printing is faithful.
`parseJsonPath` = literal model of jsonpath/parser.rs over the nom 7.1.3 combinator model.
-/
import JsonbModel.Proofs.PathFuel
import JsonbModel.Proofs.PathRoundTrip2
import JsonbModel.Proofs.ParserShape
import JsonbModel.Proofs.PathRoundTrip
import JsonbModel.Proofs.PathFindings

namespace Jsonb.Props
open Jsonb
open PathRT2

/-- for EVERY byte string the parser returns a path or an error — never a panic, never out of
fuel; input with anything left over is an error by construction of `parseJsonPath` -/
theorem C09_total (bs : Bytes) :
    (∃ jp, parseJsonPath bs = .ok jp) ∨ (∃ e, parseJsonPath bs = .err e) := parseJsonPath_total bs
theorem C09_never_panics (bs : Bytes) (s : String) : parseJsonPath bs ≠ .panic s :=
  parseJsonPath_ne_panic bs s

/-- printing `$` followed by steps (member names, wildcards, index lists, ranges, `last`
offsets over the whole i32 range) and parsing the printout gives back the same structure -/
theorem C09_print_parse_steps (fmtF64 : Nat → Bytes) (steps : List Path)
    (h : steps.all PathRT.goodStep = true) :
    parseJsonPath (printJsonPath fmtF64 (.root :: steps)) = .ok (.root :: steps) :=
  parseJsonPath_printJsonPath fmtF64 steps h

/-! ### the whole documented language: filters, literals, precedence, every layout -/

/-- **print → parse for filter expressions and predicates**: `$` + steps (incl. `?(…)` filter
steps) or a single top-level predicate, built from comparisons of `$`/`@` operand paths and
literals (null, booleans, u64, negative i64, floats the formatter prints readably, strings
without `"` and `\`, the empty string included), `&&`, `||` in ANY nesting (the printer's
parentheses are faithful) and `exists(…)` with nested filters — printing and parsing gives back
the same structure -/
theorem C09_print_parse (fmtF64 : Nat → Bytes) (jp : JsonPath) (h : goodJsonPath fmtF64 jp = true) :
    parseJsonPath (printJsonPath fmtF64 jp) = .ok jp := parseJsonPath_printJsonPath_good fmtF64 jp h

/-- **`&&` binds tighter than `||`**, on the printed text of any three good operands -/
theorem C09_precedence (fmtF64 : Nat → Bytes) (a b c : Expr)
    (ha : goodExpr fmtF64 true a = true) (hb : goodExpr fmtF64 true b = true) (hc : goodExpr fmtF64 true c = true) :
    parseJsonPath (atomText fmtF64 a ++ ([32] ++ 124 :: 124 :: ([32] ++ (atomText fmtF64 b ++
        ([32] ++ 38 :: 38 :: ([32] ++ atomText fmtF64 c))))))
      = .ok [.predicate (.binaryOp .or a (.binaryOp .and b c))] ∧
    parseJsonPath (atomText fmtF64 a ++ ([32] ++ 38 :: 38 :: ([32] ++ (atomText fmtF64 b ++
        ([32] ++ 124 :: 124 :: ([32] ++ atomText fmtF64 c))))))
      = .ok [.predicate (.binaryOp .or (.binaryOp .and a b) c)] :=
  parseJsonPath_printed_precedence fmtF64 a b c ha hb hc

/-- **any legal spacing, keyword case and quoting style**: `R kind rp e text` is the relation
"`text` is a rendering of `e`" with an arbitrary run of space / tab / CR / LF at every place the
grammar allows white space, `last` / `to` in any letter case, names as `.name`, `."name"`,
`:name` or `["name"]`, escapes in quoted strings, `!=` or `<>`, signed and exponent number
spellings; every rendering parses to the structure it renders -/
theorem C09_every_rendering_rooted {ps : List Path} {t : Bytes}
    (h : PathRT2.R .steps false (.paths ps) t) (w0 w1 : Bytes) (hw0 : PathRT2.Ws w0) (hw1 : PathRT2.Ws w1) :
    parseJsonPath (w0 ++ 36 :: (t ++ w1)) = .ok (.root :: ps) :=
  parseJsonPath_rendering_rooted h w0 w1 hw0 hw1
theorem C09_every_rendering_predicate {e : Expr} {s : Bytes} (h : PathRT2.R .orL true e s)
    (w0 w1 : Bytes) (hw0 : PathRT2.Ws w0) (hw1 : PathRT2.Ws w1) :
    parseJsonPath (w0 ++ (s ++ w1)) = .ok [.predicate e] :=
  parseJsonPath_rendering_predicate h w0 w1 hw0 hw1
/-- a functional family of layouts (four white-space runs, keyword case, quoting style, `!=`/`<>`) -/
theorem C09_every_style (st : PathRT2.Style) (hst : st.ok = true) (fmtF64 : Nat → Bytes)
    (jp : JsonPath) (h : goodJsonPath fmtF64 jp = true) :
    parseJsonPath (st.render fmtF64 jp) = .ok jp := parseJsonPath_render st hst fmtF64 jp h

/-- what is accepted is well formed: indices are i32, integer literals u64 / i64, names valid
UTF-8, the path never starts with `@`, arithmetic is never nested under a comparison -/
theorem C09_accepted_is_wellformed (bs : Bytes) (jp : JsonPath) (h : parseJsonPath bs = .ok jp) :
    PShape.parserShape jp = true ∧ typedPaths jp = true ∧ arithAtLeaves jp = true ∧
      suppPaths jp = true ∧ okPaths jp = true ∧ jp.head? ≠ some .current := parseJsonPath_wellformed bs jp h

/-- **known findings D22a / D22b** (print → parse fails although nothing needs quoting) -/
theorem C09_finding_dot5e :
    parseJsonPath [46, 34, 53, 101, 34] = .ok [.dotField [53, 101]] ∧
    (∀ f, printJsonPath f [.dotField [53, 101]] = [46, 53, 101]) ∧
    parseJsonPath [46, 53, 101] = .err "InvalidJsonPath" ∧
    parseJsonPath [36, 46, 53, 101] = .ok [.root, .dotField [53, 101]] := PathRT2.Findings.dot5e
theorem C09_finding_neg_inf :
    parseJsonPath [36, 32, 61, 61, 32, 45, 49, 101, 57, 57, 57]
      = .ok [.predicate (.binaryOp .eq (.paths [.root]) (.value (.num (.float 0xFFF0000000000000))))] ∧
    parseJsonPath [36, 32, 61, 61, 32, 45, 105, 110, 102] = .err "InvalidJsonPath" ∧
    parseJsonPath [36, 32, 61, 61, 32, 105, 110, 102]
      = .ok [.predicate (.binaryOp .eq (.paths [.root]) (.value (.num (.float 0x7FF0000000000000))))] ∧
    parseJsonPath [36, 32, 61, 61, 32, 78, 97, 78]
      = .ok [.predicate (.binaryOp .eq (.paths [.root]) (.value (.num (.float 0x7FF8000000000000))))] :=
  PathRT2.Findings.negInf

end Jsonb.Props
