/-
C09 — JSONPath syntax: every documented form parses as intended; printing is faithful.
`parseJsonPath` = literal model of jsonpath/parser.rs over the nom 7.1.3 combinator model.
-/
import JsonbModel.Proofs.PathFuel
import JsonbModel.Proofs.PathRoundTrip
import JsonbModel.Proofs.PathFindings

namespace Jsonb.Props
open Jsonb

/-- for EVERY byte string the parser returns a path or an error — never a panic, never out of
fuel; input with anything left over is an error by construction of `parseJsonPath` -/
theorem C09_total (bs : Bytes) :
    (∃ jp, parseJsonPath bs = .ok jp) ∨ (∃ e, parseJsonPath bs = .err e) := parseJsonPath_total bs
theorem C09_never_panics (bs : Bytes) (s : String) : parseJsonPath bs ≠ .panic s :=
  parseJsonPath_ne_panic bs s

/-- printing `$` followed by steps (member names, wildcards, index lists, ranges, `last`
offsets over the whole i32 range) and parsing the printout gives back the same structure -/
theorem C09_print_parse_steps (fmtF64 : Nat → Bytes) (steps : List Path)
    (h : steps.all PathRT.goodStep = true) :
    parseJsonPath (printJsonPath fmtF64 (.root :: steps)) = .ok (.root :: steps) :=
  parseJsonPath_printJsonPath fmtF64 steps h

end Jsonb.Props
