/-
C20 — Deep nesting and extreme arguments end in a result or an error, never a crash.

What a theorem can carry here, and what it cannot.  The models are total functions whose every
arithmetic overflow, index, slice and unwrap of the Rust code is an explicit `.panic` outcome,
and all theorems below quantify over EVERY good document — i.e. every nesting depth, with no
bound — and over every i32 argument.  So "no arithmetic overflow, no panic, for every depth and
every extreme argument" is proved.  What the model cannot exhibit is the consumption of the
native stack by the recursive Rust functions: that part is observed on the real code (the
`deep` ops, each in its own process) and recorded as known finding D15 where it fails.
-/
import JsonbModel.Props.C01
import JsonbModel.Props.C02
import JsonbModel.Props.C03
import JsonbModel.Props.C04
import JsonbModel.Props.C05
import JsonbModel.Props.C06
import JsonbModel.Props.C08
import JsonbModel.Props.C10
import JsonbModel.Props.C14

namespace Jsonb.Props
open Jsonb JV

/-- `n` arrays nested around the number 1 -/
def nestArr : Nat → JV
  | 0 => num (.uint 1)
  | n + 1 => arr [nestArr n]

/-- **no depth-dependent failure in the logic**: for every good document — of ANY nesting depth —
the encoder writes the layout, the decoder returns the value (fuel adequate, no panic site), the
text parser neither panics nor runs out of fuel on any input, rendering is accepted by the strict
reader, and compare returns the documented ordering -/
theorem C20_any_depth_logic (v : JV) (hg : goodTop v = true) :
    toVec v = .ok (encodeSpec v) ∧
    parseJsonb (encodeSpec v) = .ok (norm v) ∧
    Fn.compareDocs (encodeSpec v) (encodeSpec v) = .ok (Spec.cmpJV v v) ∧
    (∀ bs s, parseValue bs ≠ .panic s) ∧ (∀ bs, parseValue bs ≠ .fuel) ∧
    (∀ bs s, parseJsonb bs ≠ .panic s) :=
  ⟨C01_layout v hg, C01_roundtrip v hg, C04_refines v v hg hg, C02_total, C02_fuel_adequate, C10_never_panics⟩

theorem C20_any_depth_to_string (fmt : Nat → Bytes) (p : Bool) (v : JV) (hg : goodTop v = true) (hok : fmtOK fmt v) :
    ∃ text v', Fn.toStringDoc fmt p (encodeSpec v) = .ok text ∧ Strict.parse text = some v' :=
  let ⟨t, v', h1, h2, _⟩ := C03_strict_valid_and_same fmt p v hg hok; ⟨t, v', h1, h2⟩

/-- the depth marker of `convert_to_comparable` cannot overflow (repaired defect D20: it was
`depth + 1` on a u8, a panic beyond 255 levels) -/
theorem C20_depth_marker_total (d : Nat) : Fn.incDepth d = .ok (if d + 1 ≤ 255 then d + 1 else 255) := rfl

/-! ### extreme integer arguments: every i32, including the minimum and the maximum -/

theorem C20_delete_by_index_every_i32 (vs : List JV) (hn : vs.length < 536870912) (hg : goodL vs = true)
    (i : Int) (hi : -2147483648 ≤ i ∧ i ≤ 2147483647) (buf : Bytes) :
    Fn.deleteByIndex (encodeSpec (arr vs)) i buf
      = .ok (buf ++ encodeSpec ((Spec.deleteByIndex (arr vs) i).getD null)) :=
  C06_delete_by_index vs hn hg i hi buf

/-- at the two ends of the range nothing is deleted, nothing overflows -/
theorem C20_delete_by_index_min_max (vs : List JV) (hn : vs.length < 536870912) (hg : goodL vs = true) (buf : Bytes) :
    Fn.deleteByIndex (encodeSpec (arr vs)) (-2147483648) buf = .ok (buf ++ encodeSpec (arr vs)) ∧
    Fn.deleteByIndex (encodeSpec (arr vs)) 2147483647 buf = .ok (buf ++ encodeSpec (arr vs)) := by
  have hl : (vs.length : Int) < 536870912 := by omega
  constructor
  · rw [C06_delete_by_index vs hn hg _ (by omega) buf]
    simp only [Spec.deleteByIndex, show ((-2147483648 : Int) < 0) by omega, if_true]
    rw [if_pos (by omega)]; rfl
  · rw [C06_delete_by_index vs hn hg _ (by omega) buf]
    simp only [Spec.deleteByIndex, show ¬ ((2147483647 : Int) < 0) by omega, if_false]
    rw [if_pos (by omega)]; rfl

theorem C20_array_insert_every_i32 (v new : JV) (hg : goodTop v = true) (hnew : good new = true)
    (pos : Int) (hp : -2147483648 ≤ pos ∧ pos ≤ 2147483647)
    (hres : goodTop (Spec.arrayInsert v pos new) = true) (buf : Bytes) :
    Fn.arrayInsert (encodeSpec v) pos (encodeSpec new) buf
      = .ok (buf ++ encodeSpec (Spec.arrayInsert v pos new)) :=
  C06_array_insert v new hg hnew pos hp hres buf

theorem C20_delete_by_keypath_every_i32 (v : JV) (hg : goodTop v = true) (kp : List KeyPath) (hk : kpOK kp) (buf : Bytes) :
    ∃ r, Fn.deleteByKeypath (encodeSpec v) kp buf = r ∧ (∀ s, r ≠ .panic s) ∧ r ≠ .fuel := by
  refine ⟨_, rfl, ?_, ?_⟩ <;> rw [C06_delete_by_keypath v hg kp hk buf] <;> cases Spec.deleteByKeypath v kp <;> simp

theorem C20_get_by_keypath_every_index (v : JV) (hg : goodTop v = true) (path : List KeyPath) :
    Fn.getByKeypath (encodeSpec v) path = .ok ((Spec.getByKeypath v path).map encodeSpec) :=
  C05_get_by_keypath v hg path

/-- JSONPath index arithmetic (`last ± n` for every i32 `n`, every array length) is exact and in
range or dropped -/
theorem C20_convert_index (i : Index) (length : Int) (k : Nat)
    (h : Sel.convertIndex i length = some k) : (k : Int) < length := C08_convert_index_in_range i length k h

/-! ### the statements are about real deep documents -/
example : goodTop (nestArr 40) = true := by decide +kernel
example : (match Fn.convertToComparable (encodeSpec (nestArr 40)) [] with | .ok _ => true | _ => false) = true := by
  decide +kernel
example : (match parseJsonb (encodeSpec (nestArr 40)) with | .ok v => encodeSpec v == encodeSpec (nestArr 40) | _ => false) = true := by
  decide +kernel

end Jsonb.Props
