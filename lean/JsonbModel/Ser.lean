/-
Implementation model of ser.rs: `Encoder` writing into a caller's buffer with
`reserve_jentries` (zero fill) and `replace_jentry` (overwrite 4 bytes at an absolute index).
Buffer in, buffer out.  `buf[i] = b` beyond the end would be a Rust panic: explicit.
-/
import JsonbModel.Value

namespace Jsonb

/-- `for (i, b) in bytes.iter().enumerate() { buf[idx + i] = *b }` -/
def setBytes (buf : Bytes) (idx : Nat) : Bytes → Bytes
  | [] => buf
  | b :: bs => setBytes (buf.set idx b) (idx + 1) bs

/-- `replace_jentry`: panics (index out of bounds) unless the four positions exist -/
def replaceJentry (buf : Bytes) (word idx : Nat) : Res Bytes :=
  if idx + 4 ≤ buf.length then .ok (setBytes buf idx (u32be word)) else .panic "replace_jentry: index out of bounds"

/-- `JEntry { type_code, length: length as u32 }.encoded()` -/
def jentryWord (ty len : Nat) : Nat := ty ||| (len % 4294967296)

/-- container header `TAG | len as u32` -/
def headerWord (tag len : Nat) : Nat := tag ||| (len % 4294967296)

def zeros (n : Nat) : Bytes := List.replicate n 0

mutual
/-- `Encoder::encode_value`: returns the buffer and the entry (type, length-as-u32) -/
def encValue (buf : Bytes) : JV → Res (Bytes × Nat × Nat)
  | .null => .ok (buf, C.NULL_TAG, 0)
  | .bool true => .ok (buf, C.TRUE_TAG, 0)
  | .bool false => .ok (buf, C.FALSE_TAG, 0)
  | .num n => .ok (buf ++ Num.enc n, C.NUMBER_TAG, (Num.enc n).length % 4294967296)
  | .str s => .ok (buf ++ s, C.STRING_TAG, s.length % 4294967296)
  | .arr vs =>
    match encArrLoop ((buf ++ u32be (headerWord C.ARRAY_CONTAINER_TAG vs.length)) ++ zeros (vs.length * 4))
        (buf.length + 4) (4 + vs.length * 4) vs with
    | .ok (buf, len) => .ok (buf, C.CONTAINER_TAG, len % 4294967296)
    | .err e => .err e
    | .panic s => .panic s
    | .fuel => .fuel
  | .obj kvs =>
    match encObjKeys ((buf ++ u32be (headerWord C.OBJECT_CONTAINER_TAG kvs.length)) ++ zeros (kvs.length * 8))
        (buf.length + 4) (4 + kvs.length * 8) kvs with
    | .ok (buf, idx, len) =>
      (match encObjVals buf idx len kvs with
       | .ok (buf, len) => .ok (buf, C.CONTAINER_TAG, len % 4294967296)
       | .err e => .err e
       | .panic s => .panic s
       | .fuel => .fuel)
    | .err e => .err e
    | .panic s => .panic s
    | .fuel => .fuel
/-- the value loop of `encode_array` (state: buffer, jentry_index, array_len) -/
def encArrLoop (buf : Bytes) (idx acc : Nat) : List JV → Res (Bytes × Nat)
  | [] => .ok (buf, acc)
  | v :: vs =>
    match encValue buf v with
    | .ok (buf, ty, len) =>
      (match replaceJentry buf (jentryWord ty len) idx with
       | .ok buf => encArrLoop buf (idx + 4) (acc + len) vs
       | .err e => .err e
       | .panic s => .panic s
       | .fuel => .fuel)
    | .err e => .err e
    | .panic s => .panic s
    | .fuel => .fuel
/-- the value loop of `encode_object` -/
def encObjVals (buf : Bytes) (idx acc : Nat) : List (Bytes × JV) → Res (Bytes × Nat)
  | [] => .ok (buf, acc)
  | (_, v) :: kvs =>
    match encValue buf v with
    | .ok (buf, ty, len) =>
      (match replaceJentry buf (jentryWord ty len) idx with
       | .ok buf => encObjVals buf (idx + 4) (acc + len) kvs
       | .err e => .err e
       | .panic s => .panic s
       | .fuel => .fuel)
    | .err e => .err e
    | .panic s => .panic s
    | .fuel => .fuel
/-- the key loop of `encode_object` -/
def encObjKeys (buf : Bytes) (idx acc : Nat) : List (Bytes × JV) → Res (Bytes × Nat × Nat)
  | [] => .ok (buf, idx, acc)
  | (k, _) :: kvs =>
    match replaceJentry (buf ++ k) (jentryWord C.STRING_TAG k.length) idx with
    | .ok buf => encObjKeys buf (idx + 4) (acc + k.length) kvs
    | .err e => .err e
    | .panic s => .panic s
    | .fuel => .fuel
end

/-- `Encoder::encode_scalar` -/
def encScalarDoc (buf : Bytes) (v : JV) : Res Bytes :=
  match encValue ((buf ++ u32be C.SCALAR_CONTAINER_TAG) ++ zeros 4) v with
  | .ok (b, ty, len) => replaceJentry b (jentryWord ty len) (buf.length + 4)
  | .err e => .err e
  | .panic s => .panic s
  | .fuel => .fuel

/-- `Value::write_to_vec` = `Encoder::encode` -/
def writeToVec (buf : Bytes) (v : JV) : Res Bytes :=
  match v with
  | .arr _ | .obj _ =>
    (match encValue buf v with
     | .ok (b, _, _) => .ok b
     | .err e => .err e
     | .panic s => .panic s
     | .fuel => .fuel)
  | _ => encScalarDoc buf v

/-- `Value::to_vec` -/
def toVec (v : JV) : Res Bytes := writeToVec [] v

end Jsonb
