/-
The Rust `Display` impls of `jsonpath/path.rs` (`JsonPath`, `Path`, `Expr`, `Index`, `ArrayIndex`,
`PathValue`, operators) and `keypath.rs` (`KeyPath`, `KeyPaths`) as functions to `Bytes`.
Integers print in decimal (`itoa` / `{}`); `Number::Float64` prints through `ryu`, which is
external: the float formatter is the parameter `fmtF64 : Nat → Bytes` (bits ↦ text).
Strings are written verbatim (Rust does NOT re-escape them).  No Mathlib.
-/
import JsonbModel.PathAst

namespace Jsonb.PathPrint

/-- decimal digits of a natural number, most significant first (`"0"` for 0) -/
def decBytes (n : Nat) : Bytes :=
  if h : n < 10 then [UInt8.ofNat (48 + n)]
  else decBytes (n / 10) ++ [UInt8.ofNat (48 + n % 10)]
decreasing_by omega

/-- `{}` of a signed integer -/
def intBytes (i : Int) : Bytes :=
  if i < 0 then 45 :: decBytes i.natAbs else decBytes i.natAbs

/-- `impl Display for Index` -/
def printIndex : Index → Bytes
  | .index n => intBytes n
  | .last n =>
    [108, 97, 115, 116] ++                       -- "last"
      (if n > 0 then 43 :: intBytes n            -- "+{idx}"
       else if n < 0 then intBytes n             -- "{idx}" (carries its own '-')
       else [])

/-- `impl Display for ArrayIndex` -/
def printArrayIndex : ArrayIndex → Bytes
  | .index i => printIndex i
  | .slice s e => printIndex s ++ [32, 116, 111, 32] ++ printIndex e     -- " to "

/-- the `[i0, i1, …]` body: elements separated by `", "` -/
def printArrayIndexList : List ArrayIndex → Bytes
  | [] => []
  | [a] => printArrayIndex a
  | a :: as => printArrayIndex a ++ [44, 32] ++ printArrayIndexList as

/-- `impl Display for Number` -/
def printNum (fmtF64 : Nat → Bytes) : Num → Bytes
  | .int i => intBytes i
  | .uint n => decBytes n
  | .float b => fmtF64 b

/-- `impl Display for PathValue` -/
def printPathValue (fmtF64 : Nat → Bytes) : PathValue → Bytes
  | .null => [110, 117, 108, 108]
  | .bool true => [116, 114, 117, 101]
  | .bool false => [102, 97, 108, 115, 101]
  | .num n => printNum fmtF64 n
  | .str s => [34] ++ s ++ [34]

/-- `impl Display for BinaryOperator` -/
def printBinOp : BinOp → Bytes
  | .and => [38, 38] | .or => [124, 124] | .eq => [61, 61] | .ne => [33, 61]
  | .lt => [60] | .le => [60, 61] | .gt => [62] | .ge => [62, 61]

def printUnOp : UnOp → Bytes
  | .add => [43] | .sub => [45]

def printArithOp : ArithOp → Bytes
  | .add => [43] | .sub => [45] | .mul => [42] | .div => [47] | .mod => [37]

/-- operand of a `BinaryOp` is parenthesised iff it is itself a `BinaryOp` with `And`/`Or` -/
def needsParens : Expr → Bool
  | .binaryOp .and _ _ => true
  | .binaryOp .or _ _ => true
  | _ => false

mutual
/-- `impl Display for Path` -/
def printPath (fmtF64 : Nat → Bytes) : Path → Bytes
  | .root => [36]
  | .current => [64]
  | .dotWildcard => [46, 42]
  | .bracketWildcard => [91, 42, 93]
  | .colonField s => 58 :: s
  | .dotField s => 46 :: s
  | .objectField s => [91, 34] ++ s ++ [34, 93]
  | .arrayIndices is => [91] ++ printArrayIndexList is ++ [93]
  | .arithmeticExpr e => [63, 40] ++ printExpr fmtF64 e ++ [41]
  | .filterExpr e => [63, 40] ++ printExpr fmtF64 e ++ [41]
  | .predicate e => printExpr fmtF64 e
/-- `impl Display for Expr` -/
def printExpr (fmtF64 : Nat → Bytes) : Expr → Bytes
  | .paths ps => printPaths fmtF64 ps
  | .value v => printPathValue fmtF64 v
  | .binaryOp o l r =>
    (if needsParens l then [40] ++ printExpr fmtF64 l ++ [41] else printExpr fmtF64 l)
      ++ [32] ++ printBinOp o ++ [32] ++
    (if needsParens r then [40] ++ printExpr fmtF64 r ++ [41] else printExpr fmtF64 r)
  | .arithUnary o e => printUnOp o ++ printExpr fmtF64 e
  | .arithBinary o l r => printExpr fmtF64 l ++ [32] ++ printArithOp o ++ [32] ++ printExpr fmtF64 r
  | .existsFn ps => [101, 120, 105, 115, 116, 115, 40] ++ printPaths fmtF64 ps ++ [41]
/-- paths written one after the other, no separator -/
def printPaths (fmtF64 : Nat → Bytes) : List Path → Bytes
  | [] => []
  | p :: ps => printPath fmtF64 p ++ printPaths fmtF64 ps
end

/-- `impl Display for JsonPath` -/
def printJsonPath (fmtF64 : Nat → Bytes) (jp : JsonPath) : Bytes := printPaths fmtF64 jp

/-- `impl Display for KeyPath` -/
def printKeyPath : KeyPath → Bytes
  | .index i => intBytes i
  | .quoted s => [34] ++ s ++ [34]
  | .name s => s

def printKeyPathList : List KeyPath → Bytes
  | [] => []
  | [k] => printKeyPath k
  | k :: ks => printKeyPath k ++ [44] ++ printKeyPathList ks

/-- `impl Display for KeyPaths` -/
def printKeyPaths (ps : List KeyPath) : Bytes := [123] ++ printKeyPathList ps ++ [125]

end Jsonb.PathPrint

namespace Jsonb
export PathPrint (printJsonPath printKeyPaths)
end Jsonb
