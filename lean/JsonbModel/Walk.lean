/-
Implementation model of the byte walkers shared by functions.rs: `read_u32`, `is_jsonb`,
`get_jentry_by_index`, `get_jentry_by_name`, `extract_by_jentry` and the three iterators of
iterator.rs, with their running `jentry_offset` / `val_offset` / `key_offset` bookkeeping.
Slicing past the end is a Rust panic: explicit.
-/
import JsonbModel.De

namespace Jsonb

/-- `&value[a..b]`: panics unless `a ≤ b ≤ len` -/
def slice (value : Bytes) (a b : Nat) : Res Bytes :=
  if a ≤ b ∧ b ≤ value.length then .ok ((value.drop a).take (b - a)) else .panic "slice index out of range"

/-- `&value[a..]` -/
def sliceFrom (value : Bytes) (a : Nat) : Res Bytes :=
  if a ≤ value.length then .ok (value.drop a) else .panic "slice start out of range"

/-- `is_jsonb`: first byte exactly one of the three container prefixes -/
def isJsonb (value : Bytes) : Bool :=
  match value with
  | [] => false
  | b :: _ => b.toNat == C.ARRAY_PREFIX || b.toNat == C.OBJECT_PREFIX || b.toNat == C.SCALAR_PREFIX

/-- a decoded entry word: (type_code, length, encoded word) -/
structure JE where
  ty : Nat
  len : Nat
  enc : Nat
  deriving Repr, DecidableEq

def JE.ofWord (w : Nat) : JE := ⟨jeType w, jeLen w, w⟩

/-- `get_jentry_by_index(value, offset, header, index)`: the loop over `0..length` with the
running offsets; `none` on a short read or `index >= length`. -/
def getJentryByIndexLoop (value : Bytes) (index : Nat) : Nat → Nat → Nat → Nat → Option (JE × Nat)
  | 0, _, _, _ => none
  | n+1, i, jo, vo =>
    match readU32At value jo with
    | none => none
    | some w =>
      if i < index then getJentryByIndexLoop value index n (i + 1) (jo + 4) (vo + jeLen w)
      else some (JE.ofWord w, vo)

def getJentryByIndex (value : Bytes) (offset header index : Nat) : Option (JE × Nat) :=
  let length := hdrLen header
  if index ≥ length then none
  else getJentryByIndexLoop value index length 0 (offset + 4) (offset + 4 * length + 4)

/-- `extract_by_jentry`: containers are copied verbatim, scalars re-wrapped with a scalar
header; slices panic when out of range. -/
def extractByJentry (je : JE) (offset : Nat) (value : Bytes) : Res Bytes :=
  if je.ty = C.CONTAINER_TAG then slice value offset (offset + je.len)
  else if je.len > 0 then
    match slice value offset (offset + je.len) with
    | .ok p => .ok (u32be C.SCALAR_CONTAINER_TAG ++ (u32be je.enc ++ p))
    | .err e => .err e
    | .panic s => .panic s
    | .fuel => .fuel
  else .ok (u32be C.SCALAR_CONTAINER_TAG ++ u32be je.enc)

/-- `iterate_array(value, header)` collected: `(jentry, item)` per element.  A short read of
an entry word ends the iteration (`.ok()?`), an item slice out of range panics. -/
def iterArrayLoop (value : Bytes) : Nat → Nat → Nat → Res (List (JE × Bytes))
  | 0, _, _ => .ok []
  | n+1, jo, vo =>
    match readU32At value jo with
    | none => .ok []
    | some w =>
      match slice value vo (vo + jeLen w) with
      | .ok item =>
        (match iterArrayLoop value n (jo + 4) (vo + jeLen w) with
         | .ok rest => .ok ((JE.ofWord w, item) :: rest)
         | .err e => .err e
         | .panic s => .panic s
         | .fuel => .fuel)
      | .err e => .err e
      | .panic s => .panic s
      | .fuel => .fuel

def iterArray (value : Bytes) (header : Nat) : Res (List (JE × Bytes)) :=
  let length := hdrLen header
  iterArrayLoop value length 4 (4 * length + 4)

/-- `fill_keys` of `ObjectEntryIterator`: key entry lengths and the start of the values;
`none` if a key entry word is missing (the iterator then yields nothing... and panics on
`keys.as_mut().unwrap()`, modelled by the caller). -/
def fillKeys (value : Bytes) : Nat → Nat → Nat → Option (List Nat × Nat × Nat)
  | 0, jo, vo => some ([], jo, vo)
  | n+1, jo, vo =>
    match readU32At value jo with
    | none => none
    | some w =>
      match fillKeys value n (jo + 4) (vo + jeLen w) with
      | none => none
      | some (ks, jo', vo') => some (jeLen w :: ks, jo', vo')

/-- the `next()` loop of `ObjectEntryIterator` after `fill_keys` -/
def iterObjLoop (value : Bytes) : List Nat → Nat → Nat → Nat → Res (List (Bytes × JE × Bytes))
  | [], _, _, _ => .ok []
  | klen :: ks, ko, jo, vo =>
    match slice value ko (ko + klen) with
    | .ok key =>
      (match readU32At value jo with
       | none => .ok []
       | some w =>
         match slice value vo (vo + jeLen w) with
         | .ok item =>
           (match iterObjLoop value ks (ko + klen) (jo + 4) (vo + jeLen w) with
            | .ok rest => .ok ((key, JE.ofWord w, item) :: rest)
            | .err e => .err e
            | .panic s => .panic s
            | .fuel => .fuel)
         | .err e => .err e
         | .panic s => .panic s
         | .fuel => .fuel)
    | .err e => .err e
    | .panic s => .panic s
    | .fuel => .fuel

/-- `iterate_object_entries(value, header)` collected: `(key, jentry, item)` per member -/
def iterObjEntries (value : Bytes) (header : Nat) : Res (List (Bytes × JE × Bytes)) :=
  let length := hdrLen header
  match fillKeys value length 4 (4 + length * 8) with
  | none => .panic "ObjectEntryIterator: keys.as_mut().unwrap() after a failed fill_keys"
  | some (ks, jo, vo) => iterObjLoop value ks (4 + length * 8) jo vo

/-- `iteate_object_keys(value, header)` collected -/
def iterObjKeysLoop (value : Bytes) : Nat → Nat → Nat → Res (List Bytes)
  | 0, _, _ => .ok []
  | n+1, jo, ko =>
    match readU32At value jo with
    | none => .ok []
    | some w =>
      match slice value ko (ko + jeLen w) with
      | .ok key =>
        (match iterObjKeysLoop value n (jo + 4) (ko + jeLen w) with
         | .ok rest => .ok (key :: rest)
         | .err e => .err e
         | .panic s => .panic s
         | .fuel => .fuel)
      | .err e => .err e
      | .panic s => .panic s
      | .fuel => .fuel

def iterObjKeys (value : Bytes) (header : Nat) : Res (List Bytes) :=
  let length := hdrLen header
  iterObjKeysLoop value length 4 (8 * length + 4)

/-- ASCII-case-insensitive equality, `str::eq_ignore_ascii_case` -/
def lowerAscii (b : UInt8) : UInt8 := if 0x41 ≤ b && b ≤ 0x5A then b + 0x20 else b
def eqIgnoreAsciiCase (a b : Bytes) : Bool := a.map lowerAscii == b.map lowerAscii

/-- second loop of `get_jentry_by_name` -/
def getByNameLoop (value name : Bytes) (ignoreCase : Bool) :
    List Nat → Nat → Nat → Nat → Option (JE × Nat) → Res (Option (JE × Nat))
  | [], _, _, _, result => .ok result
  | klen :: ks, ko, jo, vo, result =>
    match slice value ko (ko + klen) with
    | .ok key =>
      (match readU32At value jo with
       | none => .ok none      -- `.ok()?` returns None from the whole function
       | some w =>
         if name == key then .ok (some (JE.ofWord w, vo))
         else
           let result' := if ignoreCase && eqIgnoreAsciiCase name key && result.isNone
                          then some (JE.ofWord w, vo) else result
           getByNameLoop value name ignoreCase ks (ko + klen) (jo + 4) (vo + jeLen w) result')
    | .err e => .err e
    | .panic s => .panic s
    | .fuel => .fuel

/-- `get_jentry_by_name(value, offset, header, name, ignore_case)` -/
def getJentryByName (value : Bytes) (offset header : Nat) (name : Bytes) (ignoreCase : Bool) :
    Res (Option (JE × Nat)) :=
  let length := hdrLen header
  match fillKeys value length (offset + 4) (offset + 8 * length + 4) with
  | none => .ok none
  | some (ks, jo, vo) => getByNameLoop value name ignoreCase ks (offset + 8 * length + 4) jo vo none

end Jsonb
