/-
`std::str::from_utf8` for the phase-3 translation: MAPPED to the model's `validUtf8` (Utf8.lean), the
way `x as f64` is mapped to `F64.ofIntRNE` and `String::from_utf8_lossy` to `utf8Lossy`: the agreement
theorems that go through it check the structure around the call, the definition of well-formed UTF-8
is the model's (Unicode 15 table 3-7, exercised by the sampled correspondence).
-/
import JsonbModel.RustPrelude3
import JsonbModel.Utf8

namespace Jsonb.Rs

/-- `std::str::from_utf8(bs)`: the same bytes as a `&str`, or `Err(Utf8Error)` -/
def strFromUtf8 (bs : Bytes) : Res Bytes := if validUtf8 bs then .ok bs else .err "Utf8Error"

end Jsonb.Rs
