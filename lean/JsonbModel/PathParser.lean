/-
Model of the two nom parsers of the crate:
* `jsonpath/parser.rs` : `parse_json_path` and every combinator function of the file;
* `keypath.rs`         : `parse_key_paths`;
with `raw_string` / `string` / `check_escaped` and a private copy of `util::parse_string` /
`parse_escaped_string` (namespace `Jsonb.PathStr`) in which every Rust panic site is an explicit
`.panic` outcome guarded exactly as the Rust code guards it.

The grammar follows the Rust source as written (same order of alternatives, same whitespace
handling).  The only recursion knot of the grammar is `expr_or`
(`expr_atom → '(' expr_or ')'`, `expr_atom → exists → path → filter_expr → expr_or`), so every
function takes the recursive `expr_or` as a parameter and `exprOr` ties the knot with fuel:
one unit per nesting level, and every nesting level consumes at least one byte (`(`).
No Mathlib.
-/
import JsonbModel.Nom
import JsonbModel.PathAst
import JsonbModel.Utf8

namespace Jsonb

/-! ## `util::parse_string` (private copy for the path parsers) -/
namespace PathStr

/-- `decode_hex_val`: `HEX[val as usize]`, `None` if 255 (index always < 256) -/
def decodeHexVal (b : UInt8) : Option Nat :=
  let n := C.HEX.getD b.toNat 255
  if n == 255 then none else some n

/-- `decode_hex_escape` (u16 accumulation; four digits never overflow) -/
def decodeHexEscape (numbers : Bytes) : Res Nat :=
  numbers.foldl (fun acc b => acc.bind fun n =>
    match decodeHexVal b with
    | some h => .ok (n * 16 % 65536 + h)
    | none => .err "InvalidHex") (.ok 0)

/-- UTF-8 encoding of a scalar value (`String::push(char)`) -/
def utf8Encode (c : Nat) : Bytes :=
  if c < 0x80 then [UInt8.ofNat c]
  else if c < 0x800 then [UInt8.ofNat (0xC0 + c / 64), UInt8.ofNat (0x80 + c % 64)]
  else if c < 0x10000 then
    [UInt8.ofNat (0xE0 + c / 4096), UInt8.ofNat (0x80 + c / 64 % 64), UInt8.ofNat (0x80 + c % 64)]
  else
    [UInt8.ofNat (0xF0 + c / 262144), UInt8.ofNat (0x80 + c / 4096 % 64),
     UInt8.ofNat (0x80 + c / 64 % 64), UInt8.ofNat (0x80 + c % 64)]

/-- `char::from_u32(n).unwrap()` followed by `str_buf.push(c)` -/
def charFromU32Unwrap (n : Nat) : Res Bytes :=
  if (0xD800 ≤ n ∧ n ≤ 0xDFFF) ∨ n > 0x10FFFF then .panic "parse_escaped_string: char::from_u32(n).unwrap()"
  else .ok (utf8Encode n)

/-- `encode_invalid_unicode`: `\`, `u`, then every byte `n` pushed as the char `n.into()` -/
def encodeInvalidUnicode (numbers : Bytes) : Bytes :=
  [92, 117] ++ numbers.flatMap (fun b => utf8Encode b.toNat)

/-- `data.read_exact(&mut [0; 4])` on a slice: `Err` (not a panic) if fewer than 4 bytes -/
def readExact4 (data : Bytes) : Option (Bytes × Bytes) :=
  if 4 ≤ data.length then some (data.take 4, data.drop 4) else none

/-- the block `if data[0] == b'{' { … } else { … }` reading four hex digits, with or without
braces.  `data[0]` is unguarded in Rust (both occurrences). -/
def readUnicode (data : Bytes) : Res (Bytes × Bytes) :=
  match data with
  | [] => .panic "parse_escaped_string: data[0] after \\u"
  | b :: r =>
    if b == 123 then
      match readExact4 r with
      | none => .err "read_exact"
      | some (nums, r') =>
        match r' with
        | [] => .panic "parse_escaped_string: data[0] at closing brace"
        | c :: r'' => if c != 125 then .err "UnexpectedEndOfHexEscape" else .ok (nums, r'')
    else
      match readExact4 (b :: r) with
      | none => .err "read_exact"
      | some (nums, r') => .ok (nums, r')

/-- the arm `n1 @ 0xD800..=0xDBFF` of `parse_escaped_string`: a high surrogate `hex` (digits
`numbers`) has been read; `data` is what follows it. -/
def parseLowSurrogate (numbers : Bytes) (hex : Nat) (data : Bytes) : Res (Bytes × Bytes) :=
  if data.length < 2 then .ok (encodeInvalidUnicode numbers, data)
  else
    match data with
    | 92 :: 117 :: data2 =>
      (readUnicode data2).bind fun (lower, data3) =>
      (decodeHexEscape lower).bind fun n2 =>
      if ¬ (0xDC00 ≤ n2 ∧ n2 ≤ 0xDFFF) then
        .ok (encodeInvalidUnicode numbers ++ encodeInvalidUnicode lower, data3)
      else
        (charFromU32Unwrap (((hex - 0xD800) * 1024 ||| (n2 - 0xDC00)) + 0x10000)).bind fun s =>
        .ok (s, data3)
    | _ => .ok (encodeInvalidUnicode numbers, data)

/-- the arm `b'u'` of `parse_escaped_string`; `data` = the bytes after `\u` -/
def parseEscapedU (data : Bytes) : Res (Bytes × Bytes) :=
  (readUnicode data).bind fun (numbers, data) =>
  (decodeHexEscape numbers).bind fun hex =>
  if 0xDC00 ≤ hex ∧ hex ≤ 0xDFFF then .ok (encodeInvalidUnicode numbers, data)
  else if 0xD800 ≤ hex ∧ hex ≤ 0xDBFF then parseLowSurrogate numbers hex data
  else (charFromU32Unwrap hex).bind fun s => .ok (s, data)

/-- `parse_escaped_string`: input = the bytes after the backslash; output = the decoded bytes
(`str_buf`) and the remaining data. -/
def parseEscaped (data : Bytes) : Res (Bytes × Bytes) :=
  match data with
  | [] => .panic "parse_escaped_string: data[0]"
  | byte :: data =>
    if byte == 92 then .ok ([92], data)
    else if byte == 34 then .ok ([34], data)
    else if byte == 47 then .ok ([47], data)
    else if byte == 98 then .ok ([8], data)
    else if byte == 102 then .ok ([12], data)
    else if byte == 110 then .ok ([10], data)
    else if byte == 114 then .ok ([13], data)
    else if byte == 116 then .ok ([9], data)
    else if byte == 117 then parseEscapedU data
    else .err "InvalidEscaped"

/-- the `while !data.is_empty()` loop of `parse_string` -/
def parseStringLoop : Nat → Bytes → Bytes → Res Bytes
  | 0, _, _ => .fuel
  | _+1, [], buf => .ok buf
  | n+1, byte :: data, buf =>
    if byte == 92 then
      (parseEscaped data).bind fun (s, rest) => parseStringLoop n rest (buf ++ s)
    else parseStringLoop n data (buf ++ [byte])

/-- `util::parse_string(data, len, idx)`; `len` is only a capacity hint and `idx` only an error
position, both dropped.  Ends with `String::from_utf8(buf)`. -/
def parseString (data : Bytes) : Res Bytes :=
  (parseStringLoop (data.length + 1) data []).bind fun buf =>
    if validUtf8 buf then .ok buf else .err "InvalidStringValue"

end PathStr

/-! ## `jsonpath/parser.rs` -/
namespace PathParser
open Nom

/-- `check_escaped(input, &mut i)` seen from the suffix `rem = input[i..]` (whose head is the
backslash): `none` = `false`, `some k` = `true` with `*i += k`.  The index expressions
`input[*i + 1]`, `input[*i + 2]` are guarded by the preceding length tests. -/
def checkEscaped (rem : Bytes) : Option Nat :=
  match rem with
  | _ :: c :: rest =>
    if c == 117 then
      if rem.length ≤ 5 then none
      else if rest.head? == some 123 then
        if rem.length ≤ 7 then none else some 8
      else some 6
    else some 2
  | _ => none

/-- the 29 bytes at which `raw_string` stops (after the fix "tabs, newlines and `&` end an
unquoted name"): space, tab, LF, CR, `&`,
`,` `.` `:` `{` `}` `[` `]` `(` `)` `?` `@` `$` `|` `<` `>` `!` `=` `+` `-` `*` `/` `%` `"` `'` -/
def rawDelims : List UInt8 :=
  [32, 9, 10, 13, 38, 44, 46, 58, 123, 125, 91, 93, 40, 41, 63, 64, 36, 124, 60, 62, 33, 61, 43, 45,
   42, 47, 37, 34, 39]

def isRawDelim (b : UInt8) : Bool := rawDelims.contains b

/-- the scanning loop shared by `raw_string` (`stop` = one of the 29 delimiters) and `string`
(`stop` = `"`); state: `rem = input[i..]`, `i`, `escapes`.  A backslash is tested first, as in
the Rust `match`.  Returns the final `(i, escapes)`, `.err` for the early `return Err`. -/
def scan (stop : UInt8 → Bool) : Nat → Bytes → Nat → Nat → Res (Nat × Nat)
  | 0, _, _, _ => .fuel
  | _+1, [], i, e => .ok (i, e)
  | n+1, c :: r, i, e =>
    if c == 92 then
      match checkEscaped (c :: r) with
      | none => .err "check_escaped"
      | some k => scan stop n ((c :: r).drop k) (i + k) (e + 1)
    else if stop c then .ok (i, e)
    else scan stop n r (i + 1) e

/-- scanning loop of `raw_string` (starts at `i = 0`) -/
def rawScan := scan isRawDelim

/-- scanning loop of `string` (starts at `i = 1`, stops at `"`) -/
def strScan := scan (fun c => c == 34)

def ofRes {α} (r : Res α) (rest : Bytes) : PR α :=
  match r with
  | .ok a => .ok a rest
  | .err _ => .error
  | .panic s => .panic s
  | .fuel => .fuel

/-- `raw_string` -/
def rawString : Parser Bytes := fun input =>
  match rawScan (input.length + 1) input 0 0 with
  | .ok (i, escapes) =>
    if i > 0 then
      -- `&input[..i]` / `&input[i..]`
      if i > input.length then .panic "raw_string: &input[..i]"
      else if escapes == 0 then
        if validUtf8 (input.take i) then .ok (input.take i) (input.drop i) else .error
      else
        -- `let len = i - escapes;` (usize subtraction, checked in debug builds)
        if escapes > i then .panic "raw_string: i - escapes"
        else ofRes (PathStr.parseString (input.take i)) (input.drop i)
    else .error
  | .err _ => .error
  | .panic s => .panic s
  | .fuel => .fuel

/-- `string` -/
def string : Parser Bytes := fun input =>
  match input with
  | [] => .error
  | q :: body =>
    if q != 34 then .error
    else
      match strScan (input.length + 1) body 1 0 with
      | .ok (i, escapes) =>
        if i < input.length then
          if escapes == 0 then
            if validUtf8 ((input.take i).drop 1) then .ok ((input.take i).drop 1) (input.drop (i + 1))
            else .error
          else
            -- `let len = i - 1 - escapes;`
            if 1 + escapes > i then .panic "string: i - 1 - escapes"
            else ofRes (PathStr.parseString ((input.take i).drop 1)) (input.drop (i + 1))
        else .error
      | .err _ => .error
      | .panic s => .panic s
      | .fuel => .fuel

abbrev ws : Parser Unit := multispace0

def kwLast : Bytes := [108, 97, 115, 116]            -- "last"
def kwTo : Bytes := [116, 111]                        -- "to"
def kwNull : Bytes := [110, 117, 108, 108]            -- "null"
def kwTrue : Bytes := [116, 114, 117, 101]            -- "true"
def kwFalse : Bytes := [102, 97, 108, 115, 101]       -- "false"
def kwExists : Bytes := [101, 120, 105, 115, 116, 115] -- "exists"

/-- `bracket_wildcard` -/
def bracketWildcard : Parser Unit :=
  value () (delimited (char 91) (delimited ws (char 42) ws) (char 93))

/-- `colon_field` -/
def colonField : Parser Bytes :=
  alt (preceded (char 58) string) (preceded (char 58) rawString)

/-- `dot_field` -/
def dotField : Parser Bytes :=
  alt (preceded (char 46) string) (preceded (char 46) rawString)

/-- `object_field` -/
def objectField : Parser Bytes :=
  delimited (terminated (char 91) ws) string (preceded ws (char 93))

/-- `i64::saturating_neg` -/
def saturatingNeg64 (v : Int) : Int :=
  if v = -9223372036854775808 then 9223372036854775807 else -v

/-- `.clamp(i32::MIN as i64, i32::MAX as i64) as i32` (`clamp` asserts `min <= max`, which
holds for these constants; after clamping the `as i32` cast is exact) -/
def clampI32 (v : Int) : Int :=
  if v < -2147483648 then -2147483648 else if v > 2147483647 then 2147483647 else v

/-- the closure of the `last - n` alternative:
`|v| Index::LastIndex(v.saturating_neg().clamp(i32::MIN as i64, i32::MAX as i64) as i32)` -/
def lastMinus (v : Int) : Index := Index.last (clampI32 (saturatingNeg64 v))

/-- `index` (after the fix "`last - n` accepts the offset that LastIndex(i32::MIN) prints as":
the offset of the second alternative is read with nom's `i64`) -/
def index : Parser Index :=
  alt (map i32 Index.index)
    (alt (map (preceded (tuple4 (tagNoCase kwLast) ws (char 45) ws) i64) lastMinus)
      (alt (map (preceded (tuple4 (tagNoCase kwLast) ws (char 43) ws) i32) Index.last)
        (map (tagNoCase kwLast) (fun _ => Index.last 0))))

/-- `array_index` -/
def arrayIndex : Parser ArrayIndex :=
  alt (map (separatedPair index (delimited ws (tagNoCase kwTo) ws) index)
        (fun se => ArrayIndex.slice se.1 se.2))
    (map index ArrayIndex.index)

/-- `array_indices` -/
def arrayIndices : Parser (List ArrayIndex) :=
  delimited (char 91) (separatedList1 (char 44) (delimited ws arrayIndex ws)) (char 93)

/-- `inner_path` -/
def innerPath : Parser Path :=
  alt (value Path.dotWildcard (tag [46, 42]))
    (alt (value Path.bracketWildcard bracketWildcard)
      (alt (map colonField Path.colonField)
        (alt (map dotField Path.dotField)
          (alt (map arrayIndices Path.arrayIndices)
            (map objectField Path.objectField)))))

/-- `pre_path` -/
def prePath : Parser Path :=
  alt (value Path.root (char 36))
    (map (delimited ws rawString ws) Path.dotField)

/-- `filter_expr` -/
def filterExpr (exprOr : Bool → Parser Expr) : Parser Expr :=
  delimited (delimited (char 63) ws (char 40)) (delimited ws (exprOr false) ws) (char 41)

/-- `path` -/
def path (exprOr : Bool → Parser Expr) : Parser Path :=
  alt (delimited ws innerPath ws)
    (map (delimited ws (filterExpr exprOr) ws) Path.filterExpr)

/-- `expr_paths` -/
def exprPaths (rootPredicate : Bool) : Parser (List Path) :=
  let parseCurrent : Parser Path :=
    mapRes (cond (!rootPredicate) (value Path.current (char 64))) id
  map (pair (alt (value Path.root (char 36)) parseCurrent)
        (many0 (delimited ws innerPath ws)))
    (fun pp => pp.1 :: pp.2)

/-- `op` -/
def op : Parser BinOp :=
  alt (value BinOp.eq (tag [61, 61]))
    (alt (value BinOp.ne (tag [33, 61]))
      (alt (value BinOp.ne (tag [60, 62]))
        (alt (value BinOp.le (tag [60, 61]))
          (alt (value BinOp.lt (char 60))
            (alt (value BinOp.ge (tag [62, 61]))
              (value BinOp.gt (char 62)))))))

/-- `unary_arith_op` -/
def unaryArithOp : Parser UnOp :=
  alt (value UnOp.add (char 43)) (value UnOp.sub (char 45))

/-- `binary_arith_op` -/
def binaryArithOp : Parser ArithOp :=
  alt (value ArithOp.add (char 43))
    (alt (value ArithOp.sub (char 45))
      (alt (value ArithOp.mul (char 42))
        (alt (value ArithOp.div (char 47))
          (value ArithOp.mod (char 37)))))

/-- `one_of(".eE")` -/
def dotOrE : Parser UInt8 := oneOf [46, 101, 69]

/-- `path_value` -/
def pathValue : Parser PathValue :=
  alt (value PathValue.null (tag kwNull))
    (alt (value (PathValue.bool true) (tag kwTrue))
      (alt (value (PathValue.bool false) (tag kwFalse))
        (alt (map (terminated u64 (not dotOrE)) (fun v => PathValue.num (Num.uint v)))
          (alt (map (terminated i64 (not dotOrE)) (fun v => PathValue.num (Num.int v)))
            (alt (map double (fun b => PathValue.num (Num.float b)))
              (map string PathValue.str))))))

/-- `inner_expr` -/
def innerExpr (rootPredicate : Bool) : Parser Expr :=
  alt (map (exprPaths rootPredicate) Expr.paths) (map pathValue Expr.value)

/-- `exists_paths` -/
def existsPaths (exprOr : Bool → Parser Expr) : Parser (List Path) :=
  map (pair (alt (value Path.root (char 36)) (value Path.current (char 64)))
        (many0 (path exprOr)))
    (fun pp => pp.1 :: pp.2)

/-- `exists` (and `filter_func`, an `alt` with this single alternative) -/
def existsFn (exprOr : Bool → Parser Expr) : Parser (List Path) :=
  preceded (tag kwExists)
    (preceded ws
      (delimited (terminated (char 40) ws) (existsPaths exprOr) (preceded ws (char 41))))

/-- `expr_atom` (order after the fix "a negative number literal can be the left operand of a
JSONPath comparison"): binary arithmetic, comparison, unary sign, parenthesised `expr_or`,
`filter_func`. -/
def exprAtom (exprOr : Bool → Parser Expr) (rootPredicate : Bool) : Parser Expr :=
  alt (map (tuple3 (delimited ws (innerExpr rootPredicate) ws) binaryArithOp
              (delimited ws (innerExpr rootPredicate) ws))
        (fun t => Expr.arithBinary t.2.1 t.1 t.2.2))
    (alt (map (tuple3 (delimited ws (innerExpr rootPredicate) ws) op
                (delimited ws (innerExpr rootPredicate) ws))
            (fun t => Expr.binaryOp t.2.1 t.1 t.2.2))
      (alt (map (pair unaryArithOp (delimited ws (innerExpr rootPredicate) ws))
              (fun t => Expr.arithUnary t.1 t.2))
        (alt (delimited (terminated (char 40) ws) (exprOr rootPredicate) (preceded ws (char 41)))
          (map (existsFn exprOr) Expr.existsFn))))

/-- the closure of `expr_and` / `expr_or`: `exprs[0]` (a panic site on an empty vector, which
`separated_list1` never returns) folded to the left with `op`. -/
def foldBin (o : BinOp) (exprs : List Expr) (rest : Bytes) : PR Expr :=
  match exprs with
  | [] => .panic "expr_and/expr_or: exprs[0]"
  | e :: es => .ok (es.foldl (fun acc r => Expr.binaryOp o acc r) e) rest

/-- `expr_and` -/
def exprAnd (exprOr : Bool → Parser Expr) (rootPredicate : Bool) : Parser Expr := fun i =>
  (separatedList1 (delimited ws (tag [38, 38]) ws) (exprAtom exprOr rootPredicate) i).bind
    (foldBin BinOp.and)

/-- body of `expr_or`, recursive calls through the parameter -/
def exprOrStep (exprOr : Bool → Parser Expr) (rootPredicate : Bool) : Parser Expr := fun i =>
  (separatedList1 (delimited ws (tag [124, 124]) ws) (exprAnd exprOr rootPredicate) i).bind
    (foldBin BinOp.or)

/-- `expr_or` with `fuel` levels of nesting available -/
def exprOr : Nat → Bool → Parser Expr
  | 0 => fun _ _ => .fuel
  | n+1 => exprOrStep (exprOr n)

/-- `predicate` -/
def predicate (fuel : Nat) : Parser (List Path) :=
  map (delimited ws (exprOr fuel true) ws) (fun v => [Path.predicate v])

/-- `paths` -/
def paths (fuel : Nat) : Parser (List Path) :=
  map (pair (opt prePath) (many0 (path (exprOr fuel))))
    (fun pp => match pp.1 with
      | some p => p :: pp.2
      | none => pp.2)

/-- `predicate_or_paths` -/
def predicateOrPaths (fuel : Nat) : Parser (List Path) :=
  alt (predicate fuel) (paths fuel)

/-- `json_path` -/
def jsonPath (fuel : Nat) : Parser JsonPath :=
  delimited ws (predicateOrPaths fuel) ws

/-! ## `keypath.rs` -/

/-- `key_path` -/
def keyPath : Parser KeyPath :=
  alt (map i32 KeyPath.index)
    (alt (map string KeyPath.quoted) (map rawString KeyPath.name))

/-- `key_paths` -/
def keyPaths : Parser (List KeyPath) :=
  alt (delimited (preceded ws (char 123))
        (separatedList1 (char 44) (delimited ws keyPath ws))
        (terminated (char 125) ws))
    (map (delimited (preceded ws (char 123)) ws (terminated (char 125) ws)) (fun _ => []))

/-- the `match` of `parse_json_path` / `parse_key_paths`: leftover input is an error;
`Err::Error` and `Err::Failure` both become `Err(_)`. -/
def finish {α} (r : PR α) (e : String) : Res α :=
  match r with
  | .ok a [] => .ok a
  | .ok _ (_ :: _) => .err e
  | .error => .err e
  | .failure => .err e
  | .panic s => .panic s
  | .fuel => .fuel

end PathParser

open PathParser in
/-- `jsonpath::parse_json_path` -/
def parseJsonPath (input : Bytes) : Res JsonPath :=
  finish (jsonPath (input.length + 1) input) "InvalidJsonPath"

open PathParser in
/-- `keypath::parse_key_paths` -/
def parseKeyPaths (input : Bytes) : Res (List KeyPath) :=
  finish (keyPaths input) "InvalidKeyPath"

end Jsonb
